#!/usr/bin/env python3
"""Regenerate /verif/MANIFEST.json from the registry (keeps the manifest in sync with what is actually checked)."""
import json, os, sys
HERE = os.path.dirname(os.path.abspath(__file__))
sys.path.insert(0, HERE)
from registry import REGISTRY, LEVEL_TEXT, NOT_APPLICABLE
VERIF = os.path.dirname(HERE)
hooks_commits = []
p = os.path.join(VERIF, 'hooks_commits.txt')
if os.path.exists(p):
    hooks_commits = [l.split()[0] for l in open(p) if l.strip()]
checks = []
for pid in sorted(REGISTRY):
    if not REGISTRY[pid]:
        continue
    lt = LEVEL_TEXT[pid]
    checks.append(dict(
        property_id=pid,
        quick_cmd='python3 ykv/check.py %s --tier quick' % pid,
        thorough_cmd='python3 ykv/check.py %s --tier thorough' % pid,
        evidence_file='evidence/%s.json' % pid,
        replay_cmd_template='python3 ykv/replay.py {path}',
        engine='ll2c+cbmc',
        level_claimed=dict(category='model_checking', text=lt['text'], design_ref=lt.get('ref', 'DESIGN.md section 4')),
        level_note=lt['note'],
        technique='bounded symbolic execution of the real code: clang++-14 LLVM IR of /repo/include -> own IR-to-C translator (ll2c) -> CBMC 6.11 + kissat; '
                  'inputs/states' + ('/schedules' if lt.get('sched') else '') + ' symbolic, unwinding assertions on, witness per harness, counterexamples replayed on the g++ build'))
man = dict(
    version=1,
    setup_cmd='python3 ykv/setup.py',
    hooks=dict(guard='YAKUSHIMA_VERIF', enable='checks compile /repo/include with -DYAKUSHIMA_VERIF (clang++-14 for the IR, g++ for replays); nothing is installed',
               baseline_off_cmd='bash ykv/baseline_off.sh', source_commits=hooks_commits, add_only=True),
    engines=[dict(name='ll2c+cbmc', path='ykv/', serves_properties=sorted(p for p in REGISTRY if REGISTRY[p]),
                  kind_free_text='own LLVM-IR -> C translator feeding CBMC 6.11 (SAT: kissat); harnesses in harness/*.cpp include the real headers')],
    checks=checks,
    notes='All checks regenerate their encoding from /repo working tree on every run. Exit 3 = inconclusive (never on the unchanged tree). See DESIGN.md.',
    not_applicable=[dict(property_id=k, reason=v) for k, v in sorted(NOT_APPLICABLE.items()) if not REGISTRY.get(k)],
)
json.dump(man, open(os.path.join(VERIF, 'MANIFEST.json'), 'w'), indent=1)
print('MANIFEST.json: %d checks, %d not_applicable' % (len(checks), len(man['not_applicable'])))
