#!/bin/bash
# retest_seed.sh <name> [runs]: rebuild the suite with a filed seeded change in a scratch worktree and run it several times
NAME=$1; RUNS=${2:-5}; WT=/tmp/retest-$NAME
git -C /repo worktree add -q --detach $WT HEAD || exit 1
git -C $WT apply /verif/seeded/$NAME/patch.diff || exit 1
mkdir -p $WT/third_party/googletest && cp -r /usr/src/googletest/. $WT/third_party/googletest/
( cd $WT && cmake -G Ninja -B _build -DCMAKE_BUILD_TYPE=RelWithDebInfo -DBUILD_STRICT=OFF -DCMAKE_CXX_FLAGS=-Wno-error . > /dev/null && cmake --build _build -j 12 > _build/build.log 2>&1 )
for i in $(seq 1 $RUNS); do ( cd $WT && ctest --test-dir _build -j8 --timeout 900 2>&1 | grep -E "tests passed|Failed|\(Failed\)|Timeout" | tr '\n' ' '; echo ); done | tee /verif/seeded/$NAME/retest.txt
git -C /repo worktree remove --force $WT
