#!/usr/bin/env python3
"""check.py <PROPERTY-ID> [--tier quick|thorough]   (DESIGN.md section 5)

exit 0  every query discharged, every vacuity witness reachable, solver samples cross-validated on the real build
exit 1  + "VIOLATION property=<id> replay=<path>"  a counterexample that reproduced and is not a listed known finding
exit 3  inconclusive (timeout / OOM / bound too small / vacuous harness / counterexample not reproduced / build error)
"""
import os, sys, json, time, argparse, hashlib, shutil, traceback
from concurrent.futures import ThreadPoolExecutor, as_completed
HERE = os.path.dirname(os.path.abspath(__file__))
sys.path.insert(0, HERE)
import pipeline
from registry import REGISTRY, UNITS

VERIF = pipeline.VERIF


def native_build(unit_name, cpp, sessions, defines, wd):
    exe = os.path.join(wd, 'native')
    if os.path.exists(exe):
        return exe, ''
    cmd = ['g++', '-std=c++17', '-O1', '-g', '-DNDEBUG', '-D' + pipeline.GUARD, '-DYAKUSHIMA_LINUX', '-DYAKUSHIMA_EPOCH_TIME=40',
           '-DYAKUSHIMA_MAX_PARALLEL_SESSIONS=%d' % sessions] + ['-D' + d for d in defines] + \
          ['-I', os.path.join(pipeline.REPO, 'include'), '-I', os.path.join(VERIF, 'harness'), cpp,
           os.path.join(VERIF, 'rt', 'native.cpp'), '-o', exe, '-rdynamic', '-lglog', '-ltbb', '-lpthread', '-ldl']
    rc, out, err, dt = pipeline.sh(cmd, timeout=900)
    if rc != 0:
        return None, err[-2000:]
    return exe, ''


def native_run(exe, fn, inputs, wd, tag):
    path = os.path.join(wd, 'in_%s_%s.txt' % (fn, tag))
    open(path, 'w').write('\n'.join(('%s %d %d %d' % (x[0], x[1], x[2], x[3])) if isinstance(x, list) else ('I %d' % x) for x in inputs) + '\n')
    env = dict(os.environ)
    env['GLOG_logtostderr'] = '1'
    rc, out, err, dt = pipeline.sh([exe, fn, path], timeout=120, env=env)
    return rc, out, err


def load_known():
    p = os.path.join(VERIF, 'known_findings.json')
    if not os.path.exists(p):
        return []
    return json.load(open(p)).get('findings', [])


def main():
    ap = argparse.ArgumentParser()
    ap.add_argument('pid')
    ap.add_argument('--tier', default=os.environ.get('VERIF_TIER', 'quick'))
    ap.add_argument('--only', default=None, help='regex on harness function names (development)')
    ap.add_argument('--keep', action='store_true')
    ap.add_argument('--jobs', type=int, default=int(os.environ.get('YK_JOBS', '14')))
    a = ap.parse_args()
    pid = a.pid
    tier = a.tier if a.tier in ('quick', 'thorough') else 'quick'
    seed = int(os.environ.get('VERIF_SEED', '0') or 0)
    t0 = time.time()
    own_scratch = 'YK_SCRATCH' not in os.environ
    scratch = pipeline.scratch_root()
    specs = [h for h in REGISTRY.get(pid, []) if tier == 'thorough' or h.get('tier', 'quick') == 'quick']
    if a.only:
        import re
        specs = [h for h in specs if re.search(a.only, h['fn'])]
    ev_path = os.path.join(VERIF, 'evidence', pid + '.json')
    os.makedirs(os.path.dirname(ev_path), exist_ok=True)
    if not specs:
        print('no harness registered for', pid)
        return 3
    results = []
    inconclusive = []
    units = {}
    errors = []
    # ---- build all units (parallel)
    need = sorted(set(h['unit'] for h in specs))

    def build(uname):
        u = UNITS[uname]
        roots = sorted(set(h['fn'] for hs in REGISTRY.values() for h in hs if h['unit'] == uname)) + list(u.get('extra_roots', ())) + list(u.get('coroutines', ()))
        return pipeline.build_unit(uname, os.path.join(VERIF, u['cpp']), roots, defines=u.get('defines', ()),
                                   sessions=u.get('sessions', 2), cuts=u.get('cuts', ()), inline_all=u.get('inline_all', False),
                                   cdefs=u.get('cdefs', ()), all_hooks=u.get('all_hooks', False), coroutines=u.get('coroutines', ()), nested=u.get('nested', False),
                                   intruder=u.get('intruder', False), new_hints=u.get('new_hints'), no_typed_arrays=u.get('no_typed_arrays', False),
                                   extra_c=[os.path.join(VERIF, x) for x in u.get('extra_c', ())])
    with ThreadPoolExecutor(max_workers=a.jobs) as ex:
        futs = {ex.submit(build, n): n for n in need}
        for n in need:
            os.makedirs(os.path.join(scratch, n + '.native'), exist_ok=True)
        nat = {ex.submit(native_build, n, os.path.join(VERIF, UNITS[n]['cpp']), UNITS[n].get('sessions', 2),
                         UNITS[n].get('defines', ()), os.path.join(scratch, n + '.native')): n for n in need}
        for f in as_completed(futs):
            n = futs[f]
            try:
                units[n] = f.result()
            except Exception as e:
                errors.append('build %s: %s' % (n, e))
        # ---- solve (parallel)
        hf = {}
        for h in specs:
            if h['unit'] not in units:
                continue
            kw = dict(timeout=h.get('timeout', 300 if tier == 'quick' else 3600), default_data=h.get('data', 4),
                      unwind_overrides=h.get('unwind'), checks=h.get('checks', False), tags=h.get('tags', ()),
                      recursion=h.get('recursion', 1), sync_bound=h.get('sync', 2))
            if 'solver' in h:
                kw['solver'] = h['solver']
            if h.get('windows'):
                # kind S, intruder mode: one query per (hook site on A's path, visit) - a case split of the schedule space
                import re as _re
                w = h['windows']
                sites = [x for x in units[h['unit']]['info'].get('sites', []) if x[2] in (0, 1) and any(_re.search(rx, x[1]) for rx in w['funcs'])]
                if w.get('every'):
                    sites = sites[::w['every']]
                h['_parts'] = []
                for x in sites:
                    for v in w.get('visits', (1,)):
                        kw2 = dict(kw)
                        kw2['window'] = (x[0], x[0], v)
                        kw2['witness'] = (v == 1)
                        fu = ex.submit(pipeline.run_harness, units[h['unit']], h['fn'], tier, **kw2)
                        hf[fu] = (h, (x[0], x[1], v))
                continue
            hf[ex.submit(pipeline.run_harness, units[h['unit']], h['fn'], tier, **kw)] = h
        for f in as_completed(hf):
            h = hf[f]
            part = None
            if isinstance(h, tuple):
                h, part = h
            try:
                r = f.result()
            except Exception as e:
                r = dict(fn=h['fn'], status='inconclusive', why='exception %r' % e, stats={})
            if part is not None:
                r['window'] = part
                h['_parts'].append(r)
                st = r.get('stats', {})
                print('[%s]   %s site %d (%s) visit %d: %-12s %6.1fs steps %s %s' % (pid, h['fn'], part[0], part[1][-40:], part[2], r['status'], st.get('wall_s', 0),
                                                                                 st.get('steps'), (r.get('why') or '')[:120]), flush=True)
                continue
            r['spec'] = h
            results.append(r)
            st = r.get('stats', {})
            print('[%s] %-38s %-12s %6.1fs  props %s/%s  %s' % (pid, h['fn'], r['status'], st.get('wall_s', 0), r.get('discharged', '-'),
                                                             r.get('properties', '-'), r.get('why', '')[:200]), flush=True)
        # aggregate the windowed queries of each intruder-mode harness
        for h in specs:
            if '_parts' not in h:
                continue
            parts = h.pop('_parts')
            agg = dict(fn=h['fn'], spec=h, failed=[], reach_ok=[], samples=[], reach_missing=[], unwindset={}, log=[],
                       stats=dict(queries=0, solver_s=0.0, wall_s=0.0, steps=0, vars=0, clauses=0, vccs=0, rss_kb=0), properties=0, discharged=0, windows=[])
            incon, allreach = [], set()
            for r in parts:
                st = r.get('stats', {})
                for k in ('queries', 'solver_s', 'wall_s'):
                    agg['stats'][k] += st.get(k, 0)
                for k in ('steps', 'vars', 'clauses', 'vccs', 'rss_kb'):
                    agg['stats'][k] = max(agg['stats'][k], st.get(k, 0))
                agg['properties'] += r.get('properties') or 0
                agg['discharged'] += r.get('discharged') or 0
                agg['windows'].append(dict(site=r['window'][0], fn=r['window'][1], visit=r['window'][2], status=r['status'], steps=st.get('steps'), wall_s=round(st.get('wall_s', 0), 1)))
                if r['status'] == 'fail':
                    for fl in r['failed']:
                        if not any(f0['description'] == fl['description'] for f0 in agg['failed']):
                            agg['failed'].append(fl)
                elif r['status'] == 'inconclusive':
                    incon.append('site %d visit %d: %s' % (r['window'][0], r['window'][2], r.get('why', '')[:100]))
                for d in r.get('reach_ok', []):
                    if d not in agg['reach_ok']:
                        agg['reach_ok'].append(d)
                        for sm in r.get('samples', []):
                            if sm['reach'] == d and len(agg['samples']) < 4:
                                agg['samples'].append(sm)
                allreach.update(r.get('reach_ok', []))
                allreach.update(r.get('reach_missing', []))
            agg['reach_missing'] = sorted(allreach - set(agg['reach_ok']))
            if agg['failed']:
                agg['status'] = 'fail'
            elif incon:
                agg['status'] = 'inconclusive'
                agg['why'] = '%d of %d windows inconclusive: %s' % (len(incon), len(parts), '; '.join(incon[:3]))
            elif agg['reach_missing'] or not agg['reach_ok']:
                agg['status'] = 'vacuous'
                agg['why'] = 'witness not reachable in any window: ' + ','.join(agg['reach_missing'] or ['(none)'])
            else:
                agg['status'] = 'pass'
            results.append(agg)
            print('[%s] %-38s %-12s windows=%d  props %s/%s  %s' % (pid, h['fn'], agg['status'], len(parts), agg['discharged'], agg['properties'], agg.get('why', '')[:200]), flush=True)
        natives = {}
        for f in as_completed(nat):
            n = nat[f]
            try:
                exe, err = f.result()
            except Exception as e:
                exe, err = None, repr(e)
            natives[n] = (exe, err)
    # ---- cross-validation of solver witnesses on the real g++ build; replay of counterexamples
    known = load_known()
    validated = 0
    disagreements = []
    violations = []
    known_hits = []
    for r in sorted(results, key=lambda x: x['fn']):
        h = r['spec']
        exe, err = natives.get(h['unit'], (None, 'no native build'))
        wd = os.path.join(scratch, h['unit'] + '.native')
        if r['status'] in ('pass', 'fail', 'vacuous'):
            for s in r.get('samples', []):
                if exe is None:
                    disagreements.append('%s: native build failed: %s' % (h['fn'], err[-300:]))
                    break
                rc, out, e2 = native_run(exe, h['fn'], s['inputs'], wd, 'w' + s['reach'].split(':')[1])
                # the witness marker was reached on the real build (an assumption that fails AFTER the marker only ends the
                # concrete run there: the solver's witness is an execution up to the marker)
                if rc in (0, 3) and ('REACH ' + s['reach']) in out and 'ASSERT-FAIL' not in out:
                    validated += 1
                else:
                    disagreements.append('%s: witness %s not reproduced natively (rc=%d %s)' % (h['fn'], s['reach'], rc, out.strip()[-200:]))
        if r['status'] == 'fail':
            for fl in r['failed']:
                sig = dict(property=pid, harness=h['fn'], assertion=fl['description'])
                kf = [k for k in known if k.get('status') == 'known' and k.get('property') == pid and k.get('harness') == h['fn']
                      and k.get('assertion') == fl['description']]
                reproduced = None
                rp = None
                if exe is not None and fl['description'].startswith('yk:'):
                    rc, out, e2 = native_run(exe, h['fn'], fl['inputs'], wd, 'cex')
                    reproduced = (rc == 1 and ('ASSERT-FAIL ' + fl['description']) in out)
                    nat_out = out.strip()[-300:]
                else:
                    nat_out = 'not replayable on the g++ build (runtime/fault assertion or no native build): ' + (err or '')[-200:]
                hsh = hashlib.sha256(json.dumps([h['fn'], fl['description'], fl['inputs']]).encode()).hexdigest()[:12]
                os.makedirs(os.path.join(VERIF, 'replays'), exist_ok=True)
                rp = os.path.join(VERIF, 'replays', '%s-%s.json' % (pid, hsh))
                json.dump(dict(property=pid, harness=h['fn'], unit=h['unit'], cpp=UNITS[h['unit']]['cpp'], assertion=fl['description'],
                               cbmc_property=fl['property'], inputs=fl['inputs'], native_reproduced=reproduced, native_output=nat_out,
                               how='python3 ykv/replay.py ' + os.path.relpath(rp, VERIF)), open(rp, 'w'), indent=1)
                fl['replay'] = rp
                fl['reproduced'] = reproduced
                if kf:
                    known_hits.append((kf[0], fl))
                elif fl['description'].startswith(('bound:', 'cut:')):
                    # a modelling bound / cut of the harness was exceeded: that is a statement about the harness, not about yakushima
                    inconclusive.append('%s: %s (model bound or cut reached; enlarge the bound or drop the cut)' % (h['fn'], fl['description']))
                elif reproduced or reproduced is None and fl['description'].startswith(('fault:', 'liveness:')):
                    # fault:/cut: assertions live in the runtime model (throw, LOG(ERROR), spin): they are reported on the
                    # strength of the solver trace through the translated real code
                    violations.append((h, fl, rp))
                else:
                    inconclusive.append('%s %s: counterexample not reproduced on the real build (encoding suspect): %s' % (h['fn'], fl['description'], nat_out))
        elif r['status'] != 'pass':
            inconclusive.append('%s: %s %s' % (h['fn'], r['status'], r.get('why', '')))
    for e in errors:
        inconclusive.append(e)
    for d in disagreements:
        inconclusive.append('translator/encoding validation: ' + d)
    # ---- evidence
    tot = dict(queries=0, solver_s=0.0, wall_s=0.0, rss_kb=0)
    for r in results:
        st = r.get('stats', {})
        tot['queries'] += st.get('queries', 0)
        tot['solver_s'] += st.get('solver_s', 0.0)
        tot['wall_s'] += st.get('wall_s', 0.0)
        tot['rss_kb'] = max(tot['rss_kb'], st.get('rss_kb', 0))
    nontrivial = sum(len(r.get('reach_ok', [])) for r in results if r['status'] in ('pass', 'fail'))
    samples = []
    for r in sorted(results, key=lambda x: x['fn']):
        h = r['spec']
        samples.append(dict(harness=h['fn'], unit=h['unit'], what=h.get('what', ''), bounds=h.get('bounds', ''), status=r['status'],
                            cbmc_properties=r.get('properties'), discharged=r.get('discharged'),
                            witnesses_reached=r.get('reach_ok', []),
                            witness_input=(r.get('samples') or [{}])[0].get('inputs'),
                            sat_vars=r.get('stats', {}).get('vars'), sat_clauses=r.get('stats', {}).get('clauses'),
                            ssa_steps=r.get('stats', {}).get('steps'), solver_s=round(r.get('stats', {}).get('solver_s', 0), 2),
                            wall_s=round(r.get('stats', {}).get('wall_s', 0), 2), peak_rss_kb=r.get('stats', {}).get('rss_kb'),
                            unwind=dict((k, v) for k, v in (r.get('unwindset') or {}).items() if not k.startswith('yk_')),
                            **({'schedule_windows': r['windows']} if r.get('windows') else {})))
    enc = {}
    for n, u in units.items():
        enc[n] = dict(cpp=UNITS[n]['cpp'], ll_sha256=u['info']['ll_sha256'], ll_lines=u['info']['ll_lines'], c_lines=u['info']['c_lines'],
                      functions=u['info']['functions'], ir_lines=u['info']['ir_lines'], externals_stubbed=u['info']['externals'],
                      cuts=u['info']['cuts'], build_s=u['info']['build_s'])
    ev = dict(property_id=pid, tier=tier, seed=seed, level='model_checking',
              coverage=dict(evaluations=tot['queries'], distinct_nontrivial=nontrivial,
                            rule='one evaluation = one CBMC/SAT query over the C translated from the LLVM IR of the real headers; '
                                 'a case counts as distinct+non-trivial when it is a different (harness, reachability-witness) pair whose '
                                 'witness assert(0) was shown reachable by the solver (so the harness is not vacuous)',
                            samples=samples, obligations=sum(r.get('properties') or 0 for r in results),
                            discharged=sum(r.get('discharged') or 0 for r in results),
                            traces_validated_against_impl=validated, exhaustive=False,
                            solver='cbmc 6.11 + kissat (external SAT)', solver_s=round(tot['solver_s'], 2), peak_rss_kb=tot['rss_kb'],
                            units_encoded=enc, inconclusive=inconclusive,
                            known_findings=[dict(k[0]) for k in known_hits]),
              assumptions=ASSUMPTIONS + [h.get('assumes') for h in specs if h.get('assumes')],
              wall_s=round(time.time() - t0, 2), violations=len(violations))
    json.dump(ev, open(ev_path, 'w'), indent=1)
    # ---- verdict
    for k, fl in known_hits:
        print('KNOWN-FINDING: property=%s %s [%s %s]' % (pid, k.get('what', ''), k.get('harness'), k.get('assertion')))
    rcode = 0
    for h, fl, rp in violations:
        print('VIOLATION property=%s replay=%s' % (pid, rp))
        print('   harness %s assertion %s (harness/%s line %s) inputs %s' % (h['fn'], fl['description'], os.path.basename(UNITS[h['unit']]['cpp']),
                                                                               fl['description'].split(':')[-1], fl['inputs'][:12]))
        rcode = 1
    if rcode == 0 and inconclusive:
        for i in inconclusive:
            print('INCONCLUSIVE:', i)
        rcode = 3
    print('[%s] tier=%s harnesses=%d queries=%d solver=%.1fs wall=%.1fs validated_witnesses=%d -> exit %d' % (
        pid, tier, len(results), tot['queries'], tot['solver_s'], time.time() - t0, validated, rcode))
    if own_scratch and not a.keep:
        shutil.rmtree(scratch, ignore_errors=True)
    return rcode


ASSUMPTIONS = [
    'bounded model checking: every claim holds only inside the stated unwinding / size bounds (unwinding assertions on)',
    'units are the LLVM-14 IR functions clang++-14 -O1 produced from /repo/include (regenerated on every run), translated to C by ykv/ll2c.py',
    'atomics are sequentially consistent single steps; compare_exchange_weak never fails spuriously',
    'allocation never fails; glog/iostream calls are no-ops except that LOG(ERROR) is an assertion',
    'CBMC 6.11 C front end + kissat are trusted; witnesses and counterexamples are re-run on the g++ build of the same harness',
]

if __name__ == '__main__':
    try:
        sys.exit(main())
    except SystemExit:
        raise
    except Exception:
        traceback.print_exc()
        sys.exit(3)
