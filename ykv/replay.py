#!/usr/bin/env python3
"""replay.py <replays/ID-hash.json>: re-run a recorded counterexample on the g++ build of the same harness (real headers,
guard on; kind S: real threads gated by the hooks following the recorded schedule).  exit 1 = the assertion fails again."""
import os, sys, json, tempfile, shutil
HERE = os.path.dirname(os.path.abspath(__file__))
sys.path.insert(0, HERE)
import pipeline, check
from registry import UNITS
r = json.load(open(sys.argv[1]))
u = UNITS[r['unit']]
wd = tempfile.mkdtemp(prefix='ykreplay.')
try:
    exe, err = check.native_build(r['unit'], os.path.join(pipeline.VERIF, u['cpp']), u.get('sessions', 2), u.get('defines', ()), wd)
    if exe is None:
        print('native build failed:', err)
        sys.exit(3)
    rc, out, e2 = check.native_run(exe, r['harness'], r['inputs'], wd, 'replay')
    print(out.strip())
    print('exit code of the native run:', rc, '(1 = assertion failed again; 0 = passed; 3 = an assumption did not hold)')
    sys.exit(1 if (rc == 1 and ('ASSERT-FAIL ' + r['assertion']) in out) else (0 if rc == 0 else 3))
finally:
    shutil.rmtree(wd, ignore_errors=True)
