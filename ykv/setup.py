#!/usr/bin/env python3
"""setup: verify the offline tool chain the checks need.  Nothing is downloaded or installed; all build products are per-run scratch."""
import shutil, subprocess, sys
need = ['clang++-14', 'opt-14', 'cbmc', 'goto-cc', 'kissat', 'g++', 'python3']
bad = [t for t in need if shutil.which(t) is None]
if bad:
    print('missing tools:', bad)
    sys.exit(1)
v = subprocess.run(['cbmc', '--version'], capture_output=True, text=True).stdout.strip()
print('tools ok; cbmc', v)
