#!/usr/bin/env python3
"""Build + solve pipeline (DESIGN.md section 2): harness.cpp --clang++--> IR --opt--> IR --ll2c--> C --goto-cc--> cbmc."""
import os, re, sys, json, time, subprocess, hashlib, shutil, resource, tempfile
sys.path.insert(0, os.path.dirname(os.path.abspath(__file__)))
import ll2c

VERIF = os.path.dirname(os.path.dirname(os.path.abspath(__file__)))
REPO = os.environ.get('YK_REPO', '/repo')
GUARD = 'YAKUSHIMA_VERIF'

CLANG_FLAGS = ['-std=c++17', '-O1', '-fsized-deallocation', '-DNDEBUG', '-D' + GUARD,
               '-DYAKUSHIMA_LINUX', '-DYAKUSHIMA_EPOCH_TIME=40',
               '-fno-vectorize', '-fno-slp-vectorize', '-fno-unroll-loops', '-mllvm', '-simplifycfg-sink-common=false', '-fno-exceptions-dummy']
CLANG_FLAGS.remove('-fno-exceptions-dummy')


def sh(cmd, timeout=None, cwd=None, env=None, mem_gb=None):
    def lim():
        if mem_gb:
            b = int(mem_gb * (1 << 30))
            resource.setrlimit(resource.RLIMIT_AS, (b, b))
        os.setsid()
    t0 = time.time()
    if env is None and os.environ.get('YK_SCRATCH'):
        # temporary files of the tools (CBMC's CNF for the external solver: hundreds of MB, left behind when a query is killed on
        # time-out) go into the run's scratch directory, which is removed at the end of the check
        env = dict(os.environ)
        env['TMPDIR'] = os.environ['YK_SCRATCH']
    try:
        p = subprocess.Popen(cmd, stdout=subprocess.PIPE, stderr=subprocess.PIPE, cwd=cwd, env=env, preexec_fn=lim, text=True)
        try:
            out, err = p.communicate(timeout=timeout)
            rc = p.returncode
        except subprocess.TimeoutExpired:
            try:
                os.killpg(p.pid, 9)
            except Exception:
                pass
            out, err = p.communicate()
            rc = -9
    except FileNotFoundError as e:
        return 127, '', str(e), 0.0
    return rc, out, err, time.time() - t0


# display() is debug output, reachable only through the vtables; no property refers to it.  A cut is an assertion.
DEFAULT_CUTS = [r'7displayEv$', r'12display_baseEv$']


class BuildError(Exception):
    pass


def scratch_root():
    d = os.environ.get('YK_SCRATCH')
    if not d:
        d = tempfile.mkdtemp(prefix='ykv.')
        os.environ['YK_SCRATCH'] = d
    os.makedirs(d, exist_ok=True)
    return d


def build_unit(name, cpp, roots, defines=(), sessions=2, cuts=(), inline_all=False, extra_c=(), cdefs=(), all_hooks=False, coroutines=(), nested=False, intruder=False, new_hints=None, no_typed_arrays=False):
    """compile harness `cpp` against /repo/include, translate, goto-cc.  returns dict(dir, c, gb, info)"""
    wd = os.path.join(scratch_root(), name)
    os.makedirs(wd, exist_ok=True)
    ll = os.path.join(wd, 'unit.ll')
    lll = os.path.join(wd, 'unit.l.ll')
    cfile = os.path.join(wd, 'unit.c')
    gb = os.path.join(wd, 'unit.gb')
    flags = list(CLANG_FLAGS) + ['-DYAKUSHIMA_MAX_PARALLEL_SESSIONS=%d' % sessions]
    flags += ['-D' + d for d in defines]
    if inline_all:
        flags += ['-mllvm', '-inline-threshold=1000000']
    cmd = ['clang++-14'] + flags + ['-I', os.path.join(VERIF, 'shim'), '-I', os.path.join(REPO, 'include'),
                                    '-I', os.path.join(VERIF, 'harness'), '-S', '-emit-llvm', cpp, '-o', ll]
    t0 = time.time()
    rc, out, err, dt = sh(cmd, timeout=600)
    if rc != 0:
        raise BuildError('clang++ failed on %s:\n%s' % (cpp, err[-3000:]))
    rc, out, err, dt = sh(['opt-14', '-S', '-passes=' + os.environ.get('YK_OPT_PASSES', 'function(lowerinvoke,simplifycfg),globaldce'), ll, '-o', lll], timeout=600)
    if rc != 0:
        raise BuildError('opt failed:\n' + err[-3000:])
    text = open(lll).read()
    try:
        src, info = ll2c.translate(text, roots, dict(cuts=list(cuts) + DEFAULT_CUTS, all_hooks=all_hooks, coroutines=list(coroutines), nested_coroutines=nested, intruder=intruder, new_hints=new_hints or {}, no_typed_arrays=no_typed_arrays))
    except Exception as e:
        raise BuildError('ll2c failed on %s: %r' % (cpp, e))
    if info['missing']:
        raise BuildError('ll2c: unresolved externals (every external needs a body): ' + ' '.join(info['missing']))
    # RTTI support: tell the runtime where the si_class_type_info vtable lives if the module has it
    pre = ''
    if '_ZTVN10__cxxabiv120__si_class_type_infoE' in text and 'g__ZTVN10__cxxabiv120__si_class_type_infoE' in src:
        pre = '#define YK_HAVE_SI_VTABLE 1\n'
        src += '\nuint8_t* yk_si_vtable_addr = (uint8_t*)(&g__ZTVN10__cxxabiv120__si_class_type_infoE + 2);\n'
    open(cfile, 'w').write(src)
    info['ll_sha256'] = hashlib.sha256(text.encode()).hexdigest()
    info['ll_lines'] = text.count('\n')
    info['c_lines'] = src.count('\n')
    cd = ['-D' + d for d in cdefs] + (['-DYK_HAVE_SI_VTABLE'] if pre else []) + (['-DYK_SEQ', '-DYK_NT=%d' % len(coroutines)] if coroutines else []) + (['-DYK_INTRUDER'] if intruder else [])
    for f_ in os.listdir(wd):
        if f_.startswith('win_') and f_.endswith('.gb'):
            os.remove(os.path.join(wd, f_))
    uo = os.path.join(wd, 'unit.o')
    rc, out, err, dt = sh(['goto-cc', '-c', '-o', uo, cfile, '-I', os.path.join(VERIF, 'rt'), '-DYK_CBMC'] + cd, timeout=600)
    if rc != 0:
        raise BuildError('goto-cc failed:\n' + (out + err)[-3000:])
    link = [uo, os.path.join(VERIF, 'rt', 'rt.c')] + list(extra_c) + ['-I', os.path.join(VERIF, 'rt'), '-DYK_CBMC'] + cd
    rc, out, err, dt = sh(['goto-cc', '-o', gb] + link, timeout=600)
    if rc != 0:
        raise BuildError('goto-cc (link) failed:\n' + (out + err)[-3000:])
    info['build_s'] = round(time.time() - t0, 2)
    # loop ids
    rc, out, err, dt = sh(['cbmc', gb, '--show-loops', '--json-ui'], timeout=300)
    loops = {}
    try:
        for item in json.loads(out):
            if isinstance(item, dict) and 'loops' in item:
                for l in item['loops']:
                    loops[l['name']] = l.get('sourceLocation', {})
    except Exception as e:
        raise BuildError('show-loops failed: %r %s' % (e, (out + err)[-500:]))
    bykey = {(l['fn'], str(l['line'])): l['kind'] for l in info['loops']}
    loopkinds = {}
    for lname, loc in loops.items():
        k = (loc.get('function', ''), loc.get('line', ''))
        if loc.get('file', '').endswith('unit.c') and k in bykey:
            loopkinds[lname] = bykey[k]
        else:
            loopkinds[lname] = 'rt'
    return dict(dir=wd, c=cfile, gb=gb, info=info, loopkinds=loopkinds, name=name, cpp=cpp, link=link)


def parse_cbmc_json(out):
    """returns (results list, stats dict, raw messages)"""
    res = []
    stats = {}
    msgs = []
    try:
        data = json.loads(out)
    except Exception:
        return None, stats, out[-2000:]
    for item in data:
        if not isinstance(item, dict):
            continue
        if 'result' in item:
            res = item['result']
        if 'messageText' in item:
            mt = item['messageText']
            msgs.append(mt)
            m = re.search(r'size of program expression: (\d+) steps', mt)
            if m:
                stats['steps'] = int(m.group(1))
            m = re.search(r'(\d+) variables, (\d+) clauses', mt)
            if m:
                stats['vars'] = int(m.group(1))
                stats['clauses'] = int(m.group(2))
            m = re.search(r'Generated (\d+) VCC\(s\), (\d+) remaining', mt)
            if m:
                stats['vccs'] = int(m.group(1))
                stats['vccs_remaining'] = int(m.group(2))
            m = re.search(r'Runtime Solver: ([0-9.]+)s', mt)
            if m:
                stats['solver_s'] = stats.get('solver_s', 0) + float(m.group(1))
            m = re.search(r'Runtime Symex: ([0-9.]+)s', mt)
            if m:
                stats['symex_s'] = float(m.group(1))
    return res, stats, msgs


def trace_inputs(trace):
    """recorded nondet inputs (yk_in[]) and, for kind S, the schedule (yk_sched/yk_ctx_len/yk_ctx_fin) from a CBMC trace.
    returns a list of ints; a schedule is appended as ['S', thread, hooks, finished] items"""
    ins = {}
    nin = 0
    sch, ln, fin = {}, {}, {}
    nctx = 0
    fire = None

    def val(st):
        v = st.get('value', {})
        try:
            return int(v.get('data')) & ((1 << 64) - 1)
        except Exception:
            b = v.get('binary')
            return int(b, 2) if b else 0
    for st in trace or []:
        if st.get('stepType') != 'assignment':
            continue
        lhs = st.get('lhs', '')
        m = re.fullmatch(r'(yk_in|yk_sched|yk_ctx_len|yk_ctx_fin)\[(\d+)l*\]', lhs)
        if m:
            {'yk_in': ins, 'yk_sched': sch, 'yk_ctx_len': ln, 'yk_ctx_fin': fin}[m.group(1)][int(m.group(2))] = val(st)
        elif lhs == 'yk_fired_hookno':
            fire = val(st)
        elif lhs == 'yk_nin':
            nin = val(st)
        elif lhs == 'yk_nctx':
            nctx = val(st)
    n = max(nin, (max(ins) + 1) if ins else 0)
    out = [ins.get(i, 0) for i in range(n)]
    for c in range(nctx):
        out.append(['S', sch.get(c, 0), ln.get(c, 0), fin.get(c, 0)])
    if fire:
        out.append(['F', fire, 0, 0])    # intruder mode: the other thread ran inside A's fire-th LOAD/STORE hook
    return out


def window_binary(unit, window):
    """goto binary of `unit` with voluntary pre-emption restricted to the hook sites window=(lo,hi) (kind S case split)"""
    lo, hi = window[0], window[1]
    visit = window[2] if len(window) > 2 else 0
    gb = os.path.join(unit['dir'], 'win_%d_%d_%d.gb' % (lo, hi, visit))
    if not os.path.exists(gb):
        rc, out, err, dt = sh(['goto-cc', '-o', gb] + unit['link'] + ['-DYK_WIN_LO=%du' % lo, '-DYK_WIN_HI=%du' % hi, '-DYK_WIN_VISIT=%d' % visit], timeout=600)
        if rc != 0:
            raise BuildError('goto-cc (window link) failed:\n' + (out + err)[-2000:])
    return gb


def run_harness(unit, fn, tier='quick', timeout=300, mem_gb=24, default_data=4, recursion=1, tags=(), const_bound=17, sync_bound=2,
                unwind_overrides=None, max_refine=6, extra_flags=(), checks=False, solver=('--external-sat-solver', 'kissat'), window=None,
                witness=True):
    """one CBMC query (with unwinding-bound refinement).  returns result dict"""
    gb = unit['gb'] if window is None else window_binary(unit, window)
    us = {}
    cfn = 'f_' + fn
    for lname, kind in unit['loopkinds'].items():
        if kind == 'sync':
            us[lname] = sync_bound
        elif kind == 'const':
            us[lname] = const_bound
        elif kind == 'data':
            us[lname] = default_data + 1
        else:
            us[lname] = 26
    for rf in unit['info'].get('recursive', []):
        us[rf] = recursion
    # functions reachable through pointers (vtables: destroy, mem_usage, ...) can recurse through indirect calls
    for rf in unit['info'].get('address_taken', []):
        us.setdefault(rf, max(recursion, 4))
    for k, v in (unwind_overrides or {}).items():
        for lname in us:
            if re.search(k, lname):
                us[lname] = v
    total = dict(queries=0, solver_s=0.0, wall_s=0.0, steps=0, vars=0, clauses=0, vccs=0, rss_kb=0)
    log = []
    base = ['cbmc', gb, '--function', cfn, '--object-bits', '16', '--drop-unused-functions', '--no-malloc-may-fail', '--slice-formula']
    if not checks:
        base += ['--no-standard-checks']
    # property inventory: real assertions vs reachability witnesses (vacuity guard)
    rc, out, err, dt = sh([x for x in base if x != '--slice-formula'] + ['--show-properties', '--json-ui'], timeout=300)
    real, reach = [], []
    try:
        for it in json.loads(out):
            if isinstance(it, dict) and 'properties' in it:
                for pr in it['properties']:
                    d = pr.get('description', '')
                    if d.startswith('reach:'):
                        if '@' in d and d.split('@')[1] not in [str(x) for x in tags]:
                            continue   # witness of another harness sharing this code
                        reach.append(pr['name'])
                    else:
                        real.append(pr['name'])
    except Exception as e:
        return dict(fn=fn, status='inconclusive', why='show-properties failed: %r %s' % (e, (out + err)[-400:]), stats=total, unwindset=us)

    def query(props, want_trace, slice_ok=True, use_solver=True, tmo=None):
        cmd = [x for x in base if slice_ok or x != '--slice-formula'] + ['--unwinding-assertions', '--json-ui', '--verbosity', '8']
        if want_trace:
            cmd += ['--trace']
        if us:
            cmd += ['--unwindset', ','.join('%s:%d' % kv for kv in sorted(us.items()))]
        for pr in props:
            cmd += ['--property', pr]
        if solver and use_solver:
            cmd += list(solver)
        cmd += list(extra_flags)
        if os.environ.get('YK_DEBUG_CMD'):
            print('CMD', ' '.join(cmd), flush=True)
        rc, out, err, dt = sh(['/usr/bin/time', '-f', 'YKRSS %M', '-o', '/dev/stderr'] + cmd, timeout=tmo or timeout, mem_gb=mem_gb)
        total['queries'] += 1
        total['wall_s'] += dt
        m = re.search(r'YKRSS (\d+)', err or '')
        if m:
            total['rss_kb'] = max(total['rss_kb'], int(m.group(1)))
        if rc == -9:
            return None, 'timeout after %ds' % timeout
        res, stats, msgs = parse_cbmc_json(out)
        if res is None or (not res and rc not in (0, 10)):
            return None, 'cbmc rc=%d: %s' % (rc, (str(msgs)[-600:] + (err or '')[-600:]))
        for k in ('steps', 'vars', 'clauses', 'vccs'):
            total[k] = max(total[k], stats.get(k, 0))
        total['solver_s'] += stats.get('solver_s', 0.0)
        return res, ''

    def refine(res):
        bump = []
        for r in res:
            if r['status'] == 'FAILURE' and '.unwind.' in r['property']:
                m = re.match(r'(.*)\.unwind\.(\d+)$', r['property'])
                bump.append('%s.%s' % (m.group(1), m.group(2)))
        changed = False
        for b in bump:
            cur = us.get(b, 2)
            kind = unit['loopkinds'].get(b)
            cap = 66 if kind == 'rt' else max(const_bound, 17)
            if kind == 'sync':
                cap = max(sync_bound, 12)
            new = min(cap, max(cur * 2, cur + 2))
            if kind in ('data', 'const'):
                new = cap      # a harness-bounded loop never needs more than its bound: this one was misclassified
            if new > cur:
                us[b] = new
                changed = True
        if bump:
            log.append('refine: bumped %s' % ','.join(bump))
        return changed

    # ---- query A: the real assertions (+ unwinding assertions), with bound refinement
    failed, unwind_fail, props = [], [], []
    if not real:
        return dict(fn=fn, status='inconclusive', why='harness has no assertion', stats=total, unwindset=us)
    for rounds in range(max_refine + 1):
        res, why = query(real, False)
        if res is None:
            return dict(fn=fn, status='inconclusive', why=why, stats=total, unwindset=us, log=log)
        if rounds < max_refine and refine(res):
            continue
        break
    bad = [r['property'] for r in res if r['status'] == 'FAILURE' and '.unwind.' not in r['property']]
    if bad:
        # counterexample extraction: the failing properties again, unsliced (--slice-formula drops the recorded inputs)
        res2, why = query(bad[:6], True, slice_ok=False)
        if res2 is not None:
            tr = {r['property']: r for r in res2}
            res = [tr.get(r['property'], r) if r['property'] in bad else r for r in res]
    for r in res:
        d = r.get('description', '')
        p = r['property']
        stt = r['status']
        if '.unwind.' in p:
            if stt == 'FAILURE':
                unwind_fail.append(p)
            continue
        props.append((p, d, stt))
        if stt == 'FAILURE':
            failed.append(dict(property=p, description=d, inputs=trace_inputs(r.get('trace')),
                               line=(r.get('sourceLocation') or {}).get('line')))
    # ---- query B: every reachability witness must FAIL (i.e. be reachable)
    reach_ok, reach_missing, samples = [], [], []
    fast_done = False
    if reach and witness:
        # B (fast path): all witnesses in ONE incremental run of CBMC's built-in solver, unsliced, with traces.  The witness
        # queries are satisfiable and easy; with the external solver CBMC re-solves from scratch per failing property.
        res, why = query(reach, True, slice_ok=False, use_solver=False, tmo=max(60, timeout // 3))
        if res is not None and not any(r['status'] == 'FAILURE' and '.unwind.' in r['property'] for r in res):
            fast_done = True
            for r in res:
                d = r.get('description', '')
                if not d.startswith('reach:'):
                    continue
                if r['status'] == 'FAILURE':
                    reach_ok.append(d)
                    if len(samples) < 4:
                        samples.append(dict(reach=d, inputs=trace_inputs(r.get('trace'))))
                else:
                    reach_missing.append(d)
        else:
            log.append('witness fast path not conclusive (%s): falling back to per-property queries' % (why or 'unwinding'))
    if reach and witness and not fast_done:
        # B1: reachability of every witness (sliced, no trace)
        for rounds in range(max_refine + 1):
            res, why = query(reach, False)
            if res is None:
                return dict(fn=fn, status='inconclusive', why='witness query: ' + why, stats=total, unwindset=us, log=log)
            if rounds < max_refine and refine(res):
                continue
            break
        for r in res:
            d = r.get('description', '')
            if not d.startswith('reach:'):
                continue
            if r['status'] == 'FAILURE':
                reach_ok.append((r['property'], d))
            else:
                reach_missing.append(d)
        # B2: one concrete witness input (unsliced, with trace) for the cross-validation on the g++ build
        if reach_ok:
            res2, why = query([reach_ok[-1][0]], True, slice_ok=False)
            for r in res2 or []:
                if r.get('description', '').startswith('reach:') and r['status'] == 'FAILURE':
                    samples.append(dict(reach=r['description'], inputs=trace_inputs(r.get('trace'))))
        reach_ok = [d for (_, d) in reach_ok]
    status = 'pass'
    why = ''
    if unwind_fail:
        status = 'inconclusive'
        why = 'unwinding bound too small: ' + ','.join(unwind_fail)
    if failed:
        status = 'fail'
    elif witness and (reach_missing or not reach_ok):
        if status == 'pass':
            status = 'vacuous'
            why = 'witness not reachable: ' + ','.join(reach_missing or ['(no reach marker)'])
    return dict(fn=fn, status=status, why=why, stats=total, properties=len(props), discharged=sum(1 for x in props if x[2] == 'SUCCESS'),
                failed=failed, reach_ok=reach_ok, reach_missing=reach_missing, samples=samples, unwindset=us, log=log)


if __name__ == '__main__':
    # ad-hoc: pipeline.py <cpp> <fn> [more fns]
    cpp = sys.argv[1]
    fns = sys.argv[2:]
    u = build_unit(os.path.basename(cpp).replace('.cpp', ''), cpp, fns)
    print('built', u['dir'], u['info']['build_s'], 's; loops', len(u['loopkinds']))
    for f in fns:
        r = run_harness(u, f)
        r2 = dict(r)
        r2.pop('unwindset', None)
        print(json.dumps(r2, indent=1)[:3000])
