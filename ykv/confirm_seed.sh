#!/bin/bash
# confirm_seed.sh <PROP> <name>: confirm a seeded change produced in /tmp/seed-<PROP> and file it under /verif/seeded/<name>/
# (1) the suite passes with the change (re-run ctest in the agent's build, after rebuilding), (2) the demo fails with it,
# (3) the demo passes on pristine headers.
set -u
P=$1; NAME=$2; WT=/tmp/seed-$P; OUT=/tmp/seed-$P-out; DST=/verif/seeded/$NAME
FLAGS="-std=c++17 -O2 -g -DNDEBUG -DYAKUSHIMA_EPOCH_TIME=40 -DYAKUSHIMA_MAX_PARALLEL_SESSIONS=8 -DYAKUSHIMA_LINUX"
mkdir -p $DST
git -C $WT diff -- include > $DST/patch.diff
[ -s $DST/patch.diff ] || { echo "empty patch"; exit 1; }
echo "== rebuild + ctest with the change"
( cd $WT && cmake --build _build -j 16 > _build/build2.log 2>&1; ctest --test-dir _build -j8 --timeout 900 2>&1 | tail -4 ) | tee $DST/ctest_tail.txt
echo "== demo WITH change"
g++ $FLAGS -I$WT/include -I$WT/test/include $OUT/demo.cpp -o /tmp/demo_${P}_with -lglog -ltbb -lpthread || exit 1
( timeout 120 /tmp/demo_${P}_with > $DST/demo_with.txt 2>&1; echo "exit=$?" >> $DST/demo_with.txt ); tail -3 $DST/demo_with.txt
echo "== demo WITHOUT change (pristine headers of the pinned commit)"
rm -rf /tmp/pristine_$P && mkdir -p /tmp/pristine_$P && git -C $WT archive HEAD include test/include | tar -x -C /tmp/pristine_$P
g++ $FLAGS -I/tmp/pristine_$P/include -I/tmp/pristine_$P/test/include $OUT/demo.cpp -o /tmp/demo_${P}_without -lglog -ltbb -lpthread || exit 1
( timeout 120 /tmp/demo_${P}_without > $DST/demo_without.txt 2>&1; echo "exit=$?" >> $DST/demo_without.txt ); tail -3 $DST/demo_without.txt
cp $OUT/demo.cpp $DST/demo.cpp; cp $OUT/NOTES.md $DST/NOTES.md 2>/dev/null
rm -rf /tmp/pristine_$P /tmp/demo_${P}_with /tmp/demo_${P}_without
