#!/bin/bash
# run every claimed property's check (tier $1, default quick) one after the other; log + exit code per property
TIER=${1:-quick}
cd "$(dirname "$0")/.."
mkdir -p /tmp/ykv_all
for p in $(python3 -c "import sys; sys.path.insert(0,'ykv'); import registry; print(' '.join(sorted(k for k,v in registry.REGISTRY.items() if v)))"); do
  if [ -n "$ONLY" ] && ! echo " $ONLY " | grep -q " $p "; then continue; fi
  s=$(date +%s)
  python3 ykv/check.py $p --tier $TIER > /tmp/ykv_all/$p.$TIER.log 2>&1
  rc=$?
  echo "$p exit=$rc wall=$(( $(date +%s) - s ))s $(tail -1 /tmp/ykv_all/$p.$TIER.log | cut -c1-160)"
done
