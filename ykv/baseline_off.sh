#!/bin/bash
# Build and run the repository's own test suite with the verification guard OFF (no -DYAKUSHIMA_VERIF anywhere),
# then require every test of the pinned stable baseline (/root/.vp/BASELINE.json, 70 tests) to pass.
# (iscan_concurrent_modify_test does not compile under -Werror on the pinned tree either and is not part of the baseline:
#  the build keeps going past it.)
B=${YK_BASELINE_BUILD:-/repo/_build}
cmake -G Ninja -S /repo -B "$B" -DCMAKE_BUILD_TYPE=RelWithDebInfo -DCMAKE_CXX_FLAGS=-Wno-error > /dev/null || exit 1
cmake --build "$B" -j 16 -- -k 0 > "$B/build.log" 2>&1
ctest --test-dir "$B" -j8 --timeout 900 --output-junit "$B/junit_off.xml" > "$B/ctest_off.log" 2>&1
tail -5 "$B/ctest_off.log"
python3 - "$B/junit_off.xml" <<'PY'
import json, sys, xml.etree.ElementTree as ET
base = json.load(open('/root/.vp/BASELINE.json'))['stable_pass']
want = set(x.split('::')[0] for x in base)
ok = set()
for tc in ET.parse(sys.argv[1]).getroot().iter('testcase'):
    if tc.find('failure') is None and tc.find('error') is None and (tc.get('status') in (None, 'run')):
        ok.add(tc.get('name'))
missing = sorted(want - ok)
print('baseline tests passing with guard off: %d/%d' % (len(want & ok), len(want)))
if missing:
    print('NOT PASSING:', missing)
    sys.exit(1)
PY
