#!/bin/bash
# Build and run the repository's own test suite with the verification guard OFF (no -DYAKUSHIMA_VERIF anywhere).
set -e
B=${YK_BASELINE_BUILD:-/repo/_build}
cmake -G Ninja -S /repo -B "$B" -DCMAKE_BUILD_TYPE=RelWithDebInfo -DCMAKE_CXX_FLAGS=-Wno-error > /dev/null
cmake --build "$B" -j 16 > "$B/build.log" 2>&1 || { tail -50 "$B/build.log"; exit 1; }
ctest --test-dir "$B" -j8 --timeout 900
