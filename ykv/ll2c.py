#!/usr/bin/env python3
"""ll2c: LLVM-14 (typed pointers) textual IR -> C99 for CBMC.

Own translator (DESIGN.md 2.2).  The input is the IR that clang++-14 produced from the *real*
yakushima headers (plus our C++ harness); the output is one C file in which every LLVM function is a C
function made of labelled basic blocks and gotos, every LLVM named type is a C struct with identical
member order, and every external symbol has a body taken from the STUBS table (an unresolved external is
an error, never a silent nondet).

Modes
  plain      one C function per LLVM function
  coroutine  (kind S) the listed thread entry functions (and everything they call that can reach a hook)
             become resumable state machines: all SSA values/allocas are statics, a call of
             @yakushima_verif_hook is a possible pre-emption point.
"""
import re, sys, hashlib, json

# ------------------------------------------------------------------ tokenizer
TOK = re.compile(r'''
   \s+
 | (?P<str>c"(?:[^"\\]|\\.)*")
 | (?P<qid>[%@]"(?:[^"\\]|\\.)*")
 | (?P<id>[%@][A-Za-z0-9_.$\-]+)
 | (?P<pstr>"(?:[^"\\]|\\.)*")
 | (?P<dollar>\$[A-Za-z0-9_.$]+|\$"[^"]*")
 | (?P<md>![A-Za-z0-9_.]*)
 | (?P<attr>\#[0-9]+)
 | (?P<num>-?[0-9]+(?:\.[0-9]+)?)
 | (?P<word>[A-Za-z_][A-Za-z0-9_.]*)
 | (?P<dots>\.\.\.)
 | (?P<p>[()\[\]{}<>,=*:])
''', re.X)


def tokenize(s):
    out = []
    i = 0
    n = len(s)
    while i < n:
        if s[i] == ';':
            break
        m = TOK.match(s, i)
        if not m:
            raise SyntaxError("tok: " + s[i:i + 60])
        i = m.end()
        if m.lastgroup:
            out.append(m.group(m.lastgroup))
    return out


def san(name):
    n = name[1:] if name[0] in '%@' else name
    if n.startswith('"'):
        n = n[1:-1]
    r = re.sub(r'[^A-Za-z0-9_]', '_', n)
    if len(r) > 60 or r != n:
        if len(r) > 48:
            r = r[:48]
        r = r + '_' + hashlib.md5(n.encode()).hexdigest()[:8]
    return r


def raw(name):
    n = name[1:]
    if n.startswith('"'):
        n = n[1:-1]
    return n


# ------------------------------------------------------------------ types
class Ty:
    __slots__ = ('k', 'bits', 'to', 'name', 'mem', 'packed', 'lname', 'n', 'el', 'ret', 'args')

    def __init__(s, k, **kw):
        s.k = k
        for a in Ty.__slots__[1:]:
            setattr(s, a, kw.get(a))

    def __repr__(s):
        return 'Ty<%s>' % s.k


class Module:
    def __init__(m):
        m.named = {}      # '%"class.x"' -> Ty (struct / void for opaque)
        m.lit = {}        # literal struct/array C name -> Ty
        m.defs = {}       # '@f' -> list of lines
        m.decls = {}      # '@f' -> header line
        m.globals = {}    # '@g' -> (Ty, init_tokens|None, is_external)
        m.gorder = []

    # ---- C type names
    def resolve_named(m, nm):
        """base_node and base_node.base are the same C struct (the .base one, members identical up to tail padding)"""
        alt = nm[:-1] + '.base"' if nm.endswith('"') else nm + '.base'
        return alt if alt in m.named else nm

    def c(m, ty):
        k = ty.k
        if k == 'void':
            return 'void'
        if k == 'int':
            b = ty.bits
            if b == 1:
                return 'uint8_t'
            if b in (8, 16, 32, 64):
                return 'uint%d_t' % b
            if b < 8:
                return 'uint8_t'
            if b < 16:
                return 'uint16_t'
            if b < 32:
                return 'uint32_t'
            if b < 64:
                return 'uint64_t'
            if b == 128:
                return 'unsigned __int128'
            raise NotImplementedError("i%d" % b)
        if k == 'ptr':
            if ty.to.k in ('func', 'void'):
                return 'uint8_t*'
            return m.c(ty.to) + '*'
        if k == 'named':
            return 'struct S_' + san(m.resolve_named(ty.name))
        if k in ('struct', 'array'):
            return 'struct ' + ty.lname
        if k == 'func':
            return 'void'
        raise NotImplementedError(k)

    def body_of(m, ty):
        if ty.k == 'named':
            return m.named[m.resolve_named(ty.name)]
        return ty

    # ---- layout (x86-64 SysV data layout of the IR)
    def size_align(m, ty):
        k = ty.k
        if k == 'int':
            b = (ty.bits + 7) // 8
            s = 1
            while s < b:
                s *= 2
            return s, min(s, 8) if s <= 8 else 16
        if k == 'ptr':
            return 8, 8
        if k == 'named':
            return m.size_align(m.named[ty.name] if ty.name in m.named else Ty('void'))
        if k == 'array':
            s, a = m.size_align(ty.el)
            return s * ty.n, a
        if k == 'struct':
            off = 0
            al = 1
            for e in ty.mem:
                s, a = m.size_align(e)
                if ty.packed:
                    a = 1
                al = max(al, a)
                off = (off + a - 1) // a * a + s
            off = (off + al - 1) // al * al
            return off, al
        if k == 'void':
            return 1, 1
        raise NotImplementedError(k)


def lit_name(kind, key):
    return 'L%s_%s' % (kind, hashlib.md5(key.encode()).hexdigest()[:10])


class P:
    def __init__(s, toks, mod):
        s.t = toks
        s.i = 0
        s.m = mod

    def peek(s, k=0):
        return s.t[s.i + k] if s.i + k < len(s.t) else None

    def next(s):
        x = s.t[s.i]
        s.i += 1
        return x

    def eat(s, x):
        if s.peek() == x:
            s.i += 1
            return True
        return False

    def expect(s, x):
        y = s.next()
        if y != x:
            raise SyntaxError("expected %s got %s in %s" % (x, y, ' '.join(s.t[max(0, s.i - 8):s.i + 8])))

    def type(s):
        t = s.next()
        m = s.m
        if t == 'void':
            ty = Ty('void')
        elif re.fullmatch(r'i[0-9]+', t):
            ty = Ty('int', bits=int(t[1:]))
        elif t[0] == '%':
            ty = Ty('named', name=t)
        elif t == '{' or (t == '<' and s.peek() == '{'):
            packed = t == '<'
            if packed:
                s.expect('{')
            mem = []
            if not s.eat('}'):
                while True:
                    mem.append(s.type())
                    if s.eat('}'):
                        break
                    s.expect(',')
            if packed:
                s.expect('>')
            key = ('P' if packed else '') + ','.join(m.c(e) for e in mem)
            ty = Ty('struct', mem=mem, packed=packed, lname=lit_name('S', key))
            m.lit[ty.lname] = ty
        elif t == '[':
            n = int(s.next())
            s.expect('x')
            el = s.type()
            s.expect(']')
            ty = Ty('array', n=n, el=el, lname=lit_name('A', '%d x %s' % (n, m.c(el))))
            m.lit[ty.lname] = ty
        elif t == 'opaque':
            ty = Ty('void')
        elif t in ('label', 'metadata', 'token'):
            ty = Ty('void')
        elif t == '<':
            raise NotImplementedError("vector type")
        else:
            raise SyntaxError("type? " + t + ' in ' + ' '.join(s.t[max(0, s.i - 8):s.i + 8]))
        while True:
            if s.eat('*'):
                ty = Ty('ptr', to=ty)
            elif s.peek() == '(':
                s.next()
                args = []
                if not s.eat(')'):
                    while True:
                        if s.eat('...'):
                            args.append('...')
                        else:
                            args.append(s.type())
                        if s.eat(')'):
                            break
                        s.expect(',')
                ty = Ty('func', ret=ty, args=args)
            else:
                break
        return ty


ATTRS = set('''noundef nonnull noalias nocapture readonly writeonly readnone returned signext zeroext inreg
 immarg nofree nosync nounwind willreturn dso_local local_unnamed_addr unnamed_addr internal linkonce_odr
 weak_odr external hidden fastcc tail musttail notail inbounds nsw nuw exact volatile weak private comdat
 constant global available_externally noreturn cold mustprogress uwtable allocsize thread_local linkonce
 extern_weak appending common nest swiftself argmemonly inaccessiblememonly speculatable norecurse
 noinline optnone alwaysinline inlinehint minsize optsize nobuiltin builtin nonlazybind noduplicate
 convergent nomerge noprofile sanitize_address naked'''.split())


def skip_attrs(p):
    while True:
        t = p.peek()
        if t in ATTRS:
            p.next()
        elif t in ('align', 'dereferenceable', 'dereferenceable_or_null'):
            p.next()
            if p.eat('('):
                p.next()
                p.expect(')')
            else:
                p.next()
        elif t in ('sret', 'byval', 'elementtype', 'preallocated', 'inalloca', 'byref'):
            p.next()
            p.expect('(')
            p.type()
            p.expect(')')
        elif t is not None and t.startswith('#'):
            p.next()
        else:
            break


def parse_header(line, mod):
    p = P(tokenize(line), mod)
    p.next()
    skip_attrs(p)
    ret = p.type()
    skip_attrs(p)
    name = p.next()
    p.expect('(')
    args = []
    if not p.eat(')'):
        while True:
            if p.eat('...'):
                args.append((None, '...'))
            else:
                ty = p.type()
                skip_attrs(p)
                an = None
                if p.peek() and p.peek()[0] == '%':
                    an = p.next()
                args.append((ty, an))
            if p.eat(')'):
                break
            p.expect(',')
    return name, ret, args


def split_module(text):
    lines = text.split('\n')
    i = 0
    items = []
    while i < len(lines):
        l = lines[i]
        if l.startswith('define'):
            body = [l]
            i += 1
            while not lines[i].startswith('}'):
                body.append(lines[i])
                i += 1
            items.append(('define', body))
        elif l.startswith('declare'):
            items.append(('declare', l))
        elif re.match(r'^%.* = type ', l):
            items.append(('type', l))
        elif re.match(r'^@.* = ', l):
            items.append(('global', l))
        i += 1
    return items


def parse_module(text):
    mod = Module()
    for k, it in split_module(text):
        if k == 'type':
            mm = re.match(r'^(%"(?:[^"\\]|\\.)*"|%[^ ]+) = type (.*)$', it)
            p = P(tokenize(mm.group(2)), mod)
            mod.named[mm.group(1)] = p.type()
        elif k == 'define':
            name = parse_header(it[0], mod)[0]
            mod.defs[name] = it
        elif k == 'declare':
            name = parse_header(it, mod)[0]
            mod.decls[name] = it
        elif k == 'global':
            mm = re.match(r'^(@"(?:[^"\\]|\\.)*"|@[^ ]+) = (.*)$', it)
            name = mm.group(1)
            toks = tokenize(mm.group(2))
            p = P(toks, mod)
            ext = False
            while p.peek() in ATTRS or p.peek() in ('dso_preemptable',):
                if p.peek() in ('external', 'extern_weak'):
                    ext = True
                if p.peek() == 'thread_local' and p.peek(1) == '(':
                    p.next(); p.next(); p.next(); p.next()
                    continue
                if p.peek() in ('global', 'constant'):
                    p.next()
                    break
                p.next()
            ty = p.type()
            rest = p.t[p.i:]
            # strip trailing ", align N" / ", comdat" / ", section ..."
            init = None
            if not ext and rest:
                init = rest
            mod.globals[name] = (ty, init, ext)
            mod.gorder.append(name)
    return mod


# ------------------------------------------------------------------ external stubs
# body templates use a0..aN (already typed as the declared parameter types) and RET for the return C type.
# A stub may also be given in rt/stubs.h by name; here we only map the mangled names.
STUB_RULES = [
    # (regex on the raw mangled name, body or None(=provided by rt as yk_x), flags)
    (r'_Znwm|_Znam', 'return (RET)yk_new(a0, 16);'),
    (r'_ZnwmSt11align_val_t|_ZnamSt11align_val_t', 'return (RET)yk_new(a0, a1);'),
    (r'_ZdlPv|_ZdaPv', 'yk_delete((void*)a0, 0, 0, 0);'),
    (r'_ZdlPvm|_ZdaPvm', 'yk_delete((void*)a0, a1, 16, 1);'),
    (r'_ZdlPvSt11align_val_t', 'yk_delete((void*)a0, 0, a1, 2);'),
    (r'_ZdlPvmSt11align_val_t', 'yk_delete((void*)a0, a1, a2, 3);'),
    (r'_ZN6google10LogMessageC[12]EPKcii', 'yk_log((const char*)a1, a2, a3);'),
    (r'_ZN6google10LogMessageC[12]EPKci', 'yk_log((const char*)a1, a2, 0);'),
    (r'_ZN6google10LogMessageD[12]Ev', ''),
    (r'_ZN6google10LogMessage6streamEv', 'return (RET)&yk_ostream;'),
    (r'_ZNSo[0-9a-zA-Z_].*|_ZNSolsE.*', 'return (RET)a0;'),                 # std::ostream members (inserters, put, flush)
    (r'_ZSt16__ostream_insert.*|_ZStls.*', 'return (RET)a0;'),
    (r'_ZNSt8ios_base4Init[CD]1Ev', ''),
    (r'__cxa_atexit', 'return 0;'),
    (r'__cxa_guard_acquire', 'if (*(uint8_t*)a0) return 0; return 1;'),
    (r'__cxa_guard_release', '*(uint8_t*)a0 = 1;'),
    (r'__cxa_guard_abort', ''),
    (r'__cxa_pure_virtual', 'yk_fault("pure virtual");'),
    (r'_ZSt9terminatev', 'yk_fault("std::terminate");'),
    (r'_ZSt[0-9]+__throw_.*', 'yk_fault("std::__throw_*");'),
    (r'__cxa_allocate_exception|__cxa_throw|__cxa_begin_catch|__cxa_end_catch|__cxa_rethrow|_Unwind_Resume|__cxa_free_exception|__cxa_call_unexpected', 'yk_fault("exception"); RETZERO'),
    (r'__gxx_personality_v0', 'return 0;'),
    (r'__dynamic_cast', 'return (RET)yk_dynamic_cast((void*)a0, (void*)a1, (void*)a2);'),
    (r'memcmp|bcmp', 'return (RET)yk_memcmp((const uint8_t*)a0, (const uint8_t*)a1, a2);'),
    (r'strcmp', 'return (RET)yk_strcmp((const char*)a0, (const char*)a1);'),
    (r'strlen', 'return (RET)yk_strlen((const char*)a0);'),
    (r'memchr', 'return (RET)yk_memchr((const uint8_t*)a0, a1, a2);'),
    (r'nanosleep|usleep|sched_yield|pthread_yield', 'yk_sleep(); return 0;'),
    (r'__errno_location', 'return (RET)&yk_errno;'),
    (r'_ZNSt6thread20hardware_concurrencyEv', 'return 0;'),
    (r'_ZNSt6thread15_M_start_thread.*', 'yk_thread_start((void*)a0, (void*)a1);'),
    (r'_ZNSt6thread4joinEv', 'yk_thread_join((void*)a0);'),
    (r'_ZNSt6thread6detachEv', 'yk_fault("thread::detach");'),
    (r'_ZNSt6thread6_StateD[012]Ev', ''),
    (r'_ZNSt6chrono3_V212system_clock3nowEv|_ZNSt6chrono3_V212steady_clock3nowEv', 'return (RET)yk_clock();'),
    (r'clock_gettime', 'return 0;'),
    (r'_ZNSt6locale.*|_ZSt9use_facet.*|_ZNKSt5ctypeIcE13_M_widen_initEv|_ZSt16__throw_bad_castv', 'yk_fault("locale"); RETZERO'),
    # std::string, libstdc++ SSO layout {char* p; size_t len; union{char buf[16]; size_t cap;}}: append within the 15-byte
    # local buffer is modelled field by field; anything that would allocate is a reported bound
    (r'_ZNSt7__cxx1112basic_stringIcSt11char_traitsIcESaIcEE9_M_appendEPKcm',
     'yk_str_append((struct yk_str*)a0, (const uint8_t*)a1, a2); return a0;'),
    (r'_ZNSt7__cxx1112basic_stringIcSt11char_traitsIcESaIcEE7reserveEm', 'yk_str_reserve((struct yk_str*)a0, a1);'),
    (r'_ZNSt7__cxx1112basic_stringIcSt11char_traitsIcESaIcEE10_M_replaceEmmPKcm',
     'yk_str_assign((struct yk_str*)a0, a1, a2, (const uint8_t*)a3, a4); return a0;'),
    (r'_ZNSt7__cxx1112basic_stringIcSt11char_traitsIcESaIcEE(12_M_constructEmc|14_M_replace_auxEmmmc|9_M_mutateEmmPKcm|9_M_createERmm|9_M_assignERKS4_)',
     'yk_string_unmodelled(); RETZERO'),
    (r'yk_.*', None),
    (r'yakushima_verif_hook|yakushima_verif_event', None),
]


def find_stub(rawname):
    for rx, body in STUB_RULES:
        if re.fullmatch(rx, rawname):
            return (body,)
    return None


# ------------------------------------------------------------------ function translation
BIN = {'add': '+', 'sub': '-', 'mul': '*', 'and': '&', 'or': '|', 'xor': '^', 'udiv': '/', 'urem': '%'}
ICMP = {'eq': '==', 'ne': '!=', 'ugt': '>', 'uge': '>=', 'ult': '<', 'ule': '<='}
SICMP = {'sgt': '>', 'sge': '>=', 'slt': '<', 'sle': '<='}


class Cx:
    pass


class Translator:
    nsite = 0

    def __init__(t, mod, opts=None):
        t.sites = []
        t.mod = mod
        t.opts = opts or {}
        t.used = set()       # referenced @symbols (functions and globals)
        t.callsigs = {}
        t.protos = []
        t.bodies = []
        t.loops = []         # dicts: fn, line (filled at emission), kind
        t.fninfo = {}
        t.cuts = [re.compile(c) for c in t.opts.get('cuts', [])]
        t.cut_hit = []
        t.yk_lines = {}
        t.calls = {}
        t.addr_taken = set()
        t.frames = []
        t.hooky_co = set()
        t.co_used = set()
        t.cur_prefix_for_calls = ''

    def c(t, ty):
        return t.mod.c(ty)

    def cast_to(t, ty, expr):
        return '((%s)(%s))' % (t.c(ty), expr)

    # ---- operands
    def value(t, p, ty):
        tok = p.next()
        m = t.mod
        if tok[0] == '%':
            return 'v_' + san(tok)
        if tok[0] == '@':
            t.used.add(tok)
            if tok in m.defs or tok in m.decls:
                if tok in m.defs:
                    t.addr_taken.add(tok)
                cr = t.opts.get('coroutines') or []
                if t.opts.get('nested_coroutines') and raw(tok) in cr:
                    return '((uint8_t*)&T%d_f_%s)' % (list(cr).index(raw(tok)), san(tok))
                return '((uint8_t*)&f_%s)' % san(tok)
            return t.cast_to(ty, '&g_%s' % san(tok))
        if re.fullmatch(r'-?[0-9]+', tok):
            v = int(tok)
            if ty.k == 'int':
                v &= (1 << ty.bits) - 1
                if ty.bits > 64:
                    return '((%s)%dULL)' % (t.c(ty), v & ((1 << 64) - 1))
                return '((%s)%dULL)' % (t.c(ty), v)
            return str(v)
        if tok in ('null', 'zeroinitializer') and ty.k == 'ptr':
            return t.cast_to(ty, '0')
        if tok in ('undef', 'poison'):
            return t.cast_to(ty, '0') if ty.k in ('ptr', 'int') else '((%s){0})' % t.c(ty)
        if tok == 'zeroinitializer':
            return '((%s){0})' % t.c(ty)
        if tok == 'true':
            return '((uint8_t)1)'
        if tok == 'false':
            return '((uint8_t)0)'
        if tok == '{' or tok == '[' or (tok == '<' and p.peek() == '{'):
            if tok == '<':
                p.next()
                tok = '{'
                pk = True
            else:
                pk = False
            close = '}' if tok == '{' else ']'
            vals = []
            if not p.eat(close):
                while True:
                    vals.append(t.typed_value(p)[1])
                    if p.eat(close):
                        break
                    p.expect(',')
            if pk:
                p.expect('>')
            if tok == '{':
                return '((%s){%s})' % (t.c(ty), ', '.join(vals))
            return '((%s){{%s}})' % (t.c(ty), ', '.join(vals))
        if tok in ('getelementptr', 'bitcast', 'inttoptr', 'ptrtoint', 'trunc', 'zext', 'sext', 'add', 'sub', 'and', 'or',
                   'mul', 'shl', 'lshr', 'icmp', 'select', 'xor'):
            return t.cast_to(ty, t.constexpr(p, tok))
        raise SyntaxError("value? %s (%s)" % (tok, ' '.join(p.t[max(0, p.i - 6):p.i + 6])))

    def typed_value(t, p):
        ty = p.type()
        skip_attrs(p)
        return ty, t.value(p, ty)

    def gep_expr(t, base_ty, base, idx):
        m = t.mod
        cur = base_ty.to
        zero = ('((uint64_t)0ULL)', '((uint32_t)0ULL)')
        e = base if idx[0][1] in zero else '(%s + (int64_t)(%s))' % (base, idx[0][1])
        if cur.k == 'void' or cur.k == 'func':
            raise NotImplementedError('gep on void*')
        for (ity, ie) in idx[1:]:
            body = m.body_of(cur)
            if body.k == 'struct':
                n = int(re.search(r'(\d+)ULL', ie).group(1))
                e = '&(%s)->f%d' % (e, n)
                cur = body.mem[n]
            elif body.k == 'array':
                if ity.k == 'int' and ity.bits < 64:
                    ie = '(int%d_t)%s' % (ity.bits, ie)
                e = '&(%s)->a[(int64_t)(%s)]' % (e, ie)
                cur = body.el
            else:
                raise SyntaxError("gep into " + body.k)
        return cur, e

    def constexpr(t, p, op):
        if op == 'getelementptr':
            while p.peek() in ('inbounds',):
                p.next()
            p.expect('(')
            p.type()
            p.expect(',')
            bty, b = t.typed_value(p)
            idx = []
            while p.eat(','):
                if p.peek() == 'inrange':
                    p.next()
                idx.append(t.typed_value(p))
            p.expect(')')
            return t.gep_expr(bty, b, idx)[1]
        if op in ('bitcast', 'inttoptr', 'ptrtoint', 'trunc', 'zext', 'sext'):
            p.expect('(')
            ty, v = t.typed_value(p)
            p.expect('to')
            to = p.type()
            p.expect(')')
            if op in ('ptrtoint', 'inttoptr'):
                return '((%s)(uintptr_t)(%s))' % (t.c(to), v)
            return t.cast_to(to, v)
        if op in ('add', 'sub', 'and', 'or', 'mul', 'xor'):
            while p.peek() in ('nsw', 'nuw'):
                p.next()
            p.expect('(')
            ty, a = t.typed_value(p)
            p.expect(',')
            ty2, b = t.typed_value(p)
            p.expect(')')
            return '(%s %s %s)' % (a, BIN[op], b)
        if op == 'icmp':
            pred = p.next()
            p.expect('(')
            ty, a = t.typed_value(p)
            p.expect(',')
            ty2, b = t.typed_value(p)
            p.expect(')')
            return '((uintptr_t)%s %s (uintptr_t)%s)' % (a, ICMP[pred], b)
        raise SyntaxError(op)

    def sgn(t, ty, e):
        if ty.bits in (8, 16, 32, 64):
            return '((int%d_t)(%s))' % (ty.bits, e)
        if ty.bits == 1:
            return '(-(int)((%s)&1))' % e
        raise NotImplementedError('signed i%d' % ty.bits)

    def mask(t, ty, e):
        if ty.k == 'int' and ty.bits not in (8, 16, 32, 64, 128):
            return '((%s)((%s) & %dULL))' % (t.c(ty), e, (1 << ty.bits) - 1)
        return e

    # ---- one function
    def is_cut(t, name):
        r = raw(name)
        for c in t.cuts:
            if c.search(r):
                return True
        return False

    def translate_fn(t, name, coro=False, prefix=''):
        """coro: emit as a resumable coroutine.  prefix '' = a thread entry compiled stand-alone (void(void));
        prefix 'T<i>_' = member of thread i's private clone set (nested coroutines): parameters / return value live in
        file-scope statics <cname>__a<k> / <cname>__ret, the caller re-enters it after a pre-emption."""
        m = t.mod
        body = m.defs[name]
        _, ret, args = parse_header(body[0], m)
        cname = prefix + 'f_' + san(name)
        t.cur_prefix = prefix if coro else ''
        t.cur_prefix_for_calls = prefix if coro else ''
        params = []
        for i, (ty, an) in enumerate(args):
            if an == '...':
                params.append('...')
                continue
            params.append('%s v_%s' % (t.c(ty), san(an) if an else str(i)))
        sig = '%s %s(%s)' % (t.c(ret), cname, ', '.join(params) or 'void')
        if coro:
            if '...' in params:
                raise SyntaxError('variadic coroutine ' + raw(name))
            sig = 'int %s(void)' % cname
            fr = []
            for i, (ty, an) in enumerate(args):
                fr.append('static %s %s__a%d;' % (t.c(ty), cname, i))
            if ret.k != 'void':
                fr.append('static %s %s__ret;' % (t.c(ret), cname))
            fr.append('static uint32_t %s__pc;' % cname)
            t.frames.append(' '.join(fr))
        t.protos.append(sig + ';')
        if t.is_cut(name):
            t.cut_hit.append(raw(name))
            rz = '' if ret.k == 'void' else (' return (%s){0};' % t.c(ret) if ret.k in ('named', 'struct', 'array') else ' return (%s)0;' % t.c(ret))
            if coro:
                rz = ' return 0;'
            t.bodies.append('%s\n{ __CPROVER_assert(0, "cut:%s");%s }\n' % (sig, raw(name)[:80], rz))
            return
        blocks = []
        cur = None
        first_label = '%' + str(len([a for a in args if a[1] != '...']))
        for l in body[1:]:
            ls = l.strip()
            if not ls or ls.startswith(';'):
                continue
            mm = re.match(r'^([A-Za-z0-9_.$\-]+|"[^"]*"):', l)
            if mm:
                cur = ['%' + mm.group(1), []]
                blocks.append(cur)
                continue
            if cur is None:
                cur = [first_label, []]
                blocks.append(cur)
            if cur[1] and cur[1][-1].startswith('switch ') and not cur[1][-1].rstrip().endswith(']'):
                cur[1][-1] += ' ' + ls
                continue
            cur[1].append(ls)
        decl = {}
        code = {}
        phis = {}
        cmpx = {}
        origins = {}   # i8* SSA name -> (pointee Ty, typed C expr) for bitcasts from typed pointers / typed new
        flags = {}   # label -> set of 'sync' markers
        # typed operator new: look for "bitcast i8* %x to T*" of a new'ed value
        newty = {}
        for lab, ins in blocks:
            for l in ins:
                mm = re.match(r'^(%[A-Za-z0-9_.]+) = (?:tail )?call [^@]*@(_Znwm|_ZnwmSt11align_val_t)\(i64 (?:noundef )?(\d+|%[A-Za-z0-9_.]+)', l)
                if mm:
                    # constant size: one object of that size; variable size (std::vector storage): a typed array of YK_ARR_CAP
                    newty[mm.group(1)] = [int(mm.group(3)) if mm.group(3)[0] != '%' else None, None]
        if newty:
            for lab, ins in blocks:
                for l in ins:
                    mm = re.match(r'^%[A-Za-z0-9_.]+ = bitcast i8\* (%[A-Za-z0-9_.]+) to (.*)\*$', l)
                    if mm and mm.group(1) in newty and newty[mm.group(1)][1] is None:
                        try:
                            ty = P(tokenize(mm.group(2)), m).type()
                            n0 = newty[mm.group(1)][0]
                            if t.opts.get('no_typed_arrays') and (n0 is None or n0 != m.size_align(ty)[0]):
                                continue   # unit option: only single objects are typed (round-1 behaviour)
                            if ty.k in ('named', 'struct', 'ptr') and (n0 is None or (m.size_align(ty)[0] > 0 and n0 % m.size_align(ty)[0] == 0)):
                                newty[mm.group(1)][1] = ty
                        except Exception:
                            pass
        # unit-level hints: a constant-size operator new whose result is never cast at the allocation site (std::deque nodes)
        for k_, v_ in newty.items():
            if v_[1] is None and v_[0] is not None and v_[0] in (t.opts.get('new_hints') or {}):
                want = t.opts['new_hints'][v_[0]]
                for nm in m.named:
                    if want in nm:
                        v_[1] = Ty('named', name=nm)
                        break
        for lab, ins in blocks:
            st = []
            code[lab] = st
            phis[lab] = []
            flags[lab] = set()
            for l in ins:
                p = P(tokenize(l), m)
                dest = None
                destraw = None
                if p.peek(1) == '=':
                    destraw = p.next()
                    dest = 'v_' + san(destraw)
                    p.next()
                op = p.next()
                while op in ('tail', 'musttail', 'notail'):
                    op = p.next()

                def setv(ty, e):
                    if ty.k == 'void' or dest is None:
                        st.append(e + ';')
                        return
                    decl[dest] = t.c(ty)
                    st.append('%s = %s;' % (dest, e))
                if op == 'phi':
                    ty = p.type()
                    inc = {}
                    while True:
                        p.expect('[')
                        v = t.value(p, ty)
                        p.expect(',')
                        pred = p.next()
                        p.expect(']')
                        inc[pred] = v
                        if not p.eat(','):
                            break
                    decl[dest] = t.c(ty)
                    phis[lab].append((dest, ty, inc))
                elif op in BIN or op in ('sdiv', 'srem', 'ashr', 'shl', 'lshr'):
                    while p.peek() in ('nsw', 'nuw', 'exact'):
                        p.next()
                    ty = p.type()
                    a = t.value(p, ty)
                    p.expect(',')
                    b = t.value(p, ty)
                    if op in BIN:
                        e = '(%s %s %s)' % (a, BIN[op], b)
                        if op in ('udiv', 'urem'):
                            e = 'yk_%s(%s, %s)' % (op, a, b)
                    elif op in ('shl', 'lshr'):
                        e = 'yk_%s%d(%s, %s)' % (op, max(ty.bits, 8) if ty.bits in (8, 16, 32, 64) else 64, a, b)
                    elif op == 'ashr':
                        e = 'yk_ashr%d(%s, %s)' % (ty.bits, a, b)
                    else:
                        e = 'yk_%s%d(%s, %s)' % (op, ty.bits, a, b)
                    setv(ty, t.mask(ty, t.cast_to(ty, e)))
                elif op == 'icmp':
                    pred = p.next()
                    ty = p.type()
                    a = t.value(p, ty)
                    p.expect(',')
                    b = t.value(p, ty)
                    if ty.k == 'ptr':
                        a = '(uintptr_t)' + a
                        b = '(uintptr_t)' + b
                    if pred in ICMP:
                        e = '(%s %s %s)' % (a, ICMP[pred], b)
                    else:
                        e = '(%s %s %s)' % (t.sgn(ty, a), SICMP[pred], t.sgn(ty, b))
                    setv(Ty('int', bits=1), '(uint8_t)' + e)
                elif op in ('zext', 'trunc', 'bitcast', 'ptrtoint', 'inttoptr', 'sext'):
                    ty, v = t.typed_value(p)
                    p.expect('to')
                    to = p.type()
                    if op == 'bitcast' and ty.k == 'ptr' and ty.to.k in ('named', 'struct', 'array') and to.k == 'ptr' and to.to.k == 'int':
                        origins[dest] = (ty.to, v)
                    if op == 'sext':
                        e = t.cast_to(to, t.sgn(ty, v))
                    elif op in ('ptrtoint', 'inttoptr'):
                        e = '((%s)(uintptr_t)(%s))' % (t.c(to), v)
                    elif op == 'trunc' and to.bits == 1:
                        e = '((uint8_t)((%s) & 1))' % v
                    else:
                        e = t.cast_to(to, v)
                    setv(to, t.mask(to, e))
                elif op == 'getelementptr':
                    p.eat('inbounds')
                    p.type()
                    p.expect(',')
                    bty, b = t.typed_value(p)
                    idx = []
                    while p.eat(','):
                        idx.append(t.typed_value(p))
                    rty, e = t.gep_expr(bty, b, idx)
                    setv(Ty('ptr', to=rty), t.cast_to(Ty('ptr', to=rty), e))
                elif op == 'load':
                    p.eat('atomic')
                    p.eat('volatile')
                    ty = p.type()
                    p.expect(',')
                    pty, ptr = t.typed_value(p)
                    setv(ty, '*(%s)' % ptr)
                elif op == 'store':
                    p.eat('atomic')
                    p.eat('volatile')
                    ty, v = t.typed_value(p)
                    p.expect(',')
                    pty, ptr = t.typed_value(p)
                    st.append('*(%s) = %s;' % (ptr, v))
                elif op == 'alloca':
                    ty = p.type()
                    cnt = None
                    if p.eat(','):
                        if p.peek() != 'align':
                            cty, cnt = t.typed_value(p)
                    if cnt is not None and cnt not in ('((uint32_t)1ULL)', '((uint64_t)1ULL)'):
                        raise NotImplementedError('dynamic alloca')
                    decl[dest + '_mem'] = t.c(ty)
                    decl[dest] = t.c(ty) + '*'
                    st.append('%s = &%s_mem;' % (dest, dest))
                elif op == 'select':
                    cty, c = t.typed_value(p)
                    p.expect(',')
                    ty, a = t.typed_value(p)
                    p.expect(',')
                    ty2, b = t.typed_value(p)
                    setv(ty, '(%s ? %s : %s)' % (c, a, b))
                elif op == 'br':
                    if p.peek() == 'label':
                        p.next()
                        st.append(('goto', p.next()))
                    else:
                        cty, c = t.typed_value(p)
                        p.expect(',')
                        p.expect('label')
                        a = p.next()
                        p.expect(',')
                        p.expect('label')
                        b = p.next()
                        st.append(('cbr', c, a, b))
                elif op == 'switch':
                    ty, v = t.typed_value(p)
                    p.expect(',')
                    p.expect('label')
                    d = p.next()
                    p.expect('[')
                    cases = []
                    while not p.eat(']'):
                        cty, cv = t.typed_value(p)
                        p.expect(',')
                        p.expect('label')
                        cases.append((cv, p.next()))
                    st.append(('switch', v, d, cases))
                elif op == 'ret':
                    ty = p.type()
                    if ty.k == 'void':
                        st.append(('ret', None))
                    else:
                        st.append(('ret', t.value(p, ty)))
                elif op == 'unreachable':
                    st.append('yk_unreachable();')
                elif op == 'cmpxchg':
                    p.eat('weak')
                    p.eat('volatile')
                    pty, ptr = t.typed_value(p)
                    p.expect(',')
                    ty, cmp = t.typed_value(p)
                    p.expect(',')
                    ty2, new = t.typed_value(p)
                    decl[dest + '_old'] = t.c(ty)
                    decl[dest + '_ok'] = 'uint8_t'
                    st.append('%s_old = *(%s); %s_ok = (%s_old == %s); if (%s_ok) *(%s) = %s;' % (dest, ptr, dest, dest, cmp, dest, ptr, new))
                    cmpx[dest] = ty
                    flags[lab].add('sync')
                elif op == 'extractvalue':
                    aty = p.type()
                    agg = p.next()
                    idxs = []
                    while p.eat(','):
                        idxs.append(int(p.next()))
                    a = 'v_' + san(agg)
                    if a in cmpx:
                        if idxs[0] == 0:
                            setv(cmpx[a], a + '_old')
                        else:
                            setv(Ty('int', bits=1), a + '_ok')
                    else:
                        cur_ty = aty
                        e = a
                        for ix in idxs:
                            b = m.body_of(cur_ty)
                            if b.k == 'struct':
                                e += '.f%d' % ix
                                cur_ty = b.mem[ix]
                            else:
                                e += '.a[%d]' % ix
                                cur_ty = b.el
                        setv(cur_ty, e)
                elif op == 'insertvalue':
                    aty, agg = t.typed_value(p)
                    p.expect(',')
                    ety, ev = t.typed_value(p)
                    idxs = []
                    while p.eat(','):
                        idxs.append(int(p.next()))
                    decl[dest] = t.c(aty)
                    cur_ty = aty
                    e = dest
                    for ix in idxs:
                        b = m.body_of(cur_ty)
                        if b.k == 'struct':
                            e += '.f%d' % ix
                            cur_ty = b.mem[ix]
                        else:
                            e += '.a[%d]' % ix
                            cur_ty = b.el
                    st.append('%s = %s; %s = %s;' % (dest, agg, e, ev))
                elif op == 'atomicrmw':
                    p.eat('volatile')
                    rop = p.next()
                    pty, ptr = t.typed_value(p)
                    p.expect(',')
                    ty, v = t.typed_value(p)
                    cop = {'add': '+', 'sub': '-', 'and': '&', 'or': '|', 'xor': '^', 'xchg': None}[rop]
                    decl[dest] = t.c(ty)
                    if cop:
                        st.append('%s = *(%s); *(%s) = (%s)(%s %s %s);' % (dest, ptr, ptr, t.c(ty), dest, cop, v))
                    else:
                        st.append('%s = *(%s); *(%s) = %s;' % (dest, ptr, ptr, v))
                elif op == 'fence':
                    pass
                elif op == 'freeze':
                    ty, v = t.typed_value(p)
                    setv(ty, v)
                elif op == 'call':
                    skip_attrs(p)
                    rty = p.type()
                    skip_attrs(p)
                    if rty.k == 'func':
                        rty = rty.ret
                    if rty.k == 'ptr' and rty.to.k == 'func' and p.peek() and p.peek()[0] in '@%' and False:
                        pass
                    callee = p.next()
                    if callee == 'asm':
                        raise NotImplementedError('inline asm: ' + l)
                    p.expect('(')
                    cargs = []
                    if not p.eat(')'):
                        while True:
                            if p.peek() == 'metadata':
                                while p.peek() not in (',', ')'):
                                    p.next()
                                cargs.append((Ty('void'), '0'))
                            else:
                                cargs.append(t.typed_value(p))
                            if p.eat(')'):
                                break
                            p.expect(',')
                    if callee.startswith('@llvm.'):
                        n = callee
                        if n.startswith('@llvm.lifetime') or n.startswith('@llvm.experimental.noalias') or n.startswith('@llvm.assume') \
                                or n.startswith('@llvm.dbg') or n.startswith('@llvm.prefetch') or n.startswith('@llvm.invariant'):
                            continue
                        def const_of(e):
                            mm = re.fullmatch(r'\(\(uint\d+_t\)(\d+)ULL\)', e)
                            return int(mm.group(1)) if mm else None
                        if n.startswith('@llvm.memcpy') or n.startswith('@llvm.memmove'):
                            sz = const_of(cargs[2][1])
                            od, os_ = origins.get(cargs[0][1]), origins.get(cargs[1][1])
                            if sz is not None and od and os_ and t.c(od[0]) == t.c(os_[0]) and m.size_align(od[0])[0] == sz:
                                # whole-object copy between typed pointers: typed struct assignment (keeps CBMC field-sensitive)
                                st.append('*(%s) = *(%s);' % (od[1], os_[1]))
                                continue
                            # variable (symbolic) size: explicit bounded byte loop (CBMC's array-level memcpy with a symbolic size is
                            # far more expensive for the solver than <= 24 guarded byte assignments)
                            st.append('yk_%s%s(%s, %s, %s);' % ('memcpy' if 'memcpy' in n else 'memmove', '' if sz is not None else '_v', cargs[0][1], cargs[1][1], cargs[2][1]))
                            continue
                        if n.startswith('@llvm.memset'):
                            sz = const_of(cargs[2][1])
                            od = origins.get(cargs[0][1])
                            if sz is not None and od and const_of(cargs[1][1]) == 0 and m.size_align(od[0])[0] == sz:
                                st.append('*(%s) = (%s){0};' % (od[1], t.c(od[0])))
                                continue
                            st.append('yk_memset(%s, %s, %s);' % (cargs[0][1], cargs[1][1], cargs[2][1]))
                            continue
                        if n == '@llvm.x86.sse2.pause':
                            st.append('yk_pause();')
                            flags[lab].add('sync')
                            continue
                        if n.startswith('@llvm.usub.sat'):
                            setv(rty, '((%s) > (%s) ? (%s) - (%s) : 0)' % (cargs[0][1], cargs[1][1], cargs[0][1], cargs[1][1]))
                            continue
                        if n.startswith('@llvm.umin') or n.startswith('@llvm.umax'):
                            o = '<' if 'umin' in n else '>'
                            setv(rty, '((%s) %s (%s) ? (%s) : (%s))' % (cargs[0][1], o, cargs[1][1], cargs[0][1], cargs[1][1]))
                            continue
                        if n.startswith('@llvm.smin') or n.startswith('@llvm.smax'):
                            o = '<' if 'smin' in n else '>'
                            setv(rty, '((%s) %s (%s) ? (%s) : (%s))' % (t.sgn(rty, cargs[0][1]), o, t.sgn(rty, cargs[1][1]), cargs[0][1], cargs[1][1]))
                            continue
                        if n.startswith('@llvm.bswap.i64'):
                            setv(rty, '__builtin_bswap64(%s)' % cargs[0][1])
                            continue
                        if n.startswith('@llvm.bswap.i32'):
                            setv(rty, '__builtin_bswap32(%s)' % cargs[0][1])
                            continue
                        if n.startswith('@llvm.ctlz.i64'):
                            setv(rty, 'yk_ctlz64(%s)' % cargs[0][1])
                            continue
                        if n.startswith('@llvm.cttz.i64'):
                            setv(rty, 'yk_cttz64(%s)' % cargs[0][1])
                            continue
                        if n.startswith('@llvm.ctpop.i64'):
                            setv(rty, '((uint64_t)__builtin_popcountll(%s))' % cargs[0][1])
                            continue
                        if n.startswith('@llvm.fshl.i64'):
                            setv(rty, 'yk_fshl64(%s, %s, %s)' % (cargs[0][1], cargs[1][1], cargs[2][1]))
                            continue
                        if n.startswith('@llvm.abs'):
                            setv(rty, t.cast_to(rty, '(%s < 0 ? -%s : %s)' % (t.sgn(rty, cargs[0][1]), t.sgn(rty, cargs[0][1]), t.sgn(rty, cargs[0][1]))))
                            continue
                        if n.startswith('@llvm.trap'):
                            st.append('yk_fault("llvm.trap");')
                            continue
                        if n.startswith('@llvm.stacksave'):
                            setv(rty, '(uint8_t*)0')
                            continue
                        if n.startswith('@llvm.stackrestore'):
                            continue
                        raise NotImplementedError(n)
                    rn = raw(callee) if callee[0] == '@' else None
                    if rn in ('yk_assert_at', 'yk_reach_at'):
                        cond = cargs[0][1] if rn == 'yk_assert_at' else '0'
                        lm = re.search(r'^\(\(uint32_t\)(\d+)ULL\)$', cargs[-1][1])
                        ln = lm.group(1) if lm else cargs[-1][1]
                        tag = ('yk' if rn == 'yk_assert_at' else 'reach') + ':' + (ln if lm else 'merged')
                        if lm and rn == 'yk_reach_at' and int(ln) >= 100000:
                            tag = 'reach:%d@%d' % (int(ln) % 100000, int(ln) // 100000)
                        st.append('yk_note(%s); __CPROVER_assert(%s, "%s");' % (ln, cond, tag))
                        continue
                    if rn in ('_Znwm', '_ZnwmSt11align_val_t') and destraw in newty and newty[destraw][1] is not None:
                        ty = newty[destraw][1]
                        al = cargs[1][1] if len(cargs) > 1 else '16'
                        decl[dest] = 'uint8_t*'
                        if newty[destraw][0] is not None and newty[destraw][0] != m.size_align(ty)[0]:
                            # constant multiple of sizeof(T): a typed array (std::vector::reserve with a constant count)
                            k = newty[destraw][0] // m.size_align(ty)[0]
                            st.append('%s = (uint8_t*)malloc(sizeof(%s) * %d); yk_new_typed(%s, sizeof(%s) * %d, %s);' % (dest, t.c(ty), k, dest, t.c(ty), k, al))
                            continue
                        if newty[destraw][0] is None:
                            st.append('%s = (uint8_t*)malloc(sizeof(%s) * YK_ARR_CAP); yk_new_array(%s, %s, %s, sizeof(%s) * YK_ARR_CAP);' % (
                                dest, t.c(ty), dest, cargs[0][1], al, t.c(ty)))
                            continue
                        st.append('%s = (uint8_t*)malloc(sizeof(%s)); yk_new_typed(%s, sizeof(%s), %s);' % (dest, t.c(ty), dest, t.c(ty), al))
                        origins[dest] = (ty, '((%s*)%s)' % (t.c(ty), dest))
                        continue
                    if rn == '__dynamic_cast':
                        # dynamic_cast to a class with a vtable in this module and no derived class (yakushima's node classes are
                        # final): succeeds iff the object's vptr is that class's vtable address point.  Written so that CBMC can
                        # constant-fold it (the generic type_info walk in rt.h reads the vtable through untyped pointers).
                        mm = re.search(r'&g_(_ZTI\w+?)(_[0-9a-f]{8})?\)', cargs[2][1])
                        tiname = None
                        for g in m.globals:
                            if g.startswith('@_ZTI') and ('&g_%s)' % san(g)) in cargs[2][1]:
                                tiname = g
                        vt = '@_ZTV' + tiname[5:] if tiname else None
                        derived = tiname is not None and any(
                            (gi[1] is not None and tiname in gi[1]) for gn, gi in m.globals.items() if gn.startswith('@_ZTI') and gn != tiname)
                        if vt in m.globals and not derived:
                            t.used.add(vt)
                            decl[dest] = t.c(rty)
                            o = cargs[0][1]
                            vaddr = '((uint8_t**)(&(&(((%s*)(&g_%s)))->f0)->a[(int64_t)(((uint64_t)2ULL))]))' % (t.c(m.globals[vt][0]), san(vt))
                            st.append('%s = ((%s) != 0 && *(uint8_t***)(%s) == %s) ? (%s) : (%s)0;' % (dest, o, o, vaddr, o, t.c(rty)))
                            continue
                    if rn == 'yakushima_verif_hook':
                        kind = int(re.search(r'(\d+)ULL', cargs[0][1]).group(1))
                        if kind in (2, 3, 4):
                            flags[lab].add('sync')
                        if kind in (0, 1) and not t.opts.get('all_hooks') and not t.opts.get('intruder') and not coro:
                            continue   # plain mode without watch counters: LOAD/STORE hooks carry no meaning for one thread
                        st.append(('hook', kind, cargs[1][1] if len(cargs) > 1 else '0'))
                        continue
                    if callee[0] == '@':
                        t.used.add(callee)
                        t.calls.setdefault(name, set()).add(callee)
                        fn = 'f_' + san(callee)
                        if coro and callee in t.hooky_co and callee in m.defs:
                            # nested coroutine call: arguments into the callee's static frame, then (re-)enter it
                            t.co_used.add(callee)
                            cfn = t.cur_prefix_for_calls + fn
                            if dest is not None and rty.k != 'void':
                                decl[dest] = t.c(rty)
                            st.append(('cocall', cfn, [a[1] for a in cargs], dest if (dest is not None and rty.k != 'void') else None))
                            continue
                        # cast args to declared parameter types when the call type differs (varargs / bitcast callees)
                        e = '%s(%s)' % (fn, ', '.join(a[1] for a in cargs))
                        t.callsigs.setdefault(callee, (rty, [a[0] for a in cargs]))
                    else:
                        fty = '%s (*)(%s)' % (t.c(rty), ', '.join(t.c(a[0]) for a in cargs) or 'void')
                        e = '((%s)(v_%s))(%s)' % (fty, san(callee), ', '.join(a[1] for a in cargs))
                    if rty.k == 'void' or dest is None:
                        st.append(('call', None, e, callee))
                    else:
                        decl[dest] = t.c(rty)
                        st.append(('call', dest, e, callee))
                elif op in ('resume', 'landingpad', 'invoke'):
                    raise NotImplementedError(op + ' (run lowerinvoke first) :: ' + l)
                else:
                    raise NotImplementedError(op + ' :: ' + l)
        order = [lab for lab, _ in blocks]
        pos = {lab: i for i, lab in enumerate(order)}
        # fault blocks: a block that only calls a noreturn throw/terminate stub and ends in `unreachable` (std::array::at range
        # checks, vector length checks ...).  A conditional branch into such a block becomes a straight-line
        # assert+assume: CBMC otherwise keeps one more conjunct in the path guard for the rest of the run for every
        # such check, and guards that are merged at the many exits of a coroutine then grow without bound.
        def is_fault_block(lab):
            if phis.get(lab):
                return False
            c_ = code[lab]
            if not c_ or c_[-1] != 'yk_unreachable();':
                return False
            for s_ in c_[:-1]:
                if not (isinstance(s_, tuple) and s_[0] == 'call' and s_[1] is None and
                        re.match(r'f_(_ZSt\d+__throw_|_ZSt9terminatev|__cxa_pure_virtual|abort\b)', s_[2])):
                    return False
            return len(c_) >= 2
        fb = set(l_ for l_ in order if is_fault_block(l_))
        if fb:
            for lab in order:
                c_ = code[lab]
                if c_ and isinstance(c_[-1], tuple) and c_[-1][0] == 'cbr':
                    _, cnd, a_, b_ = c_[-1]
                    if a_ in fb and b_ not in fb:
                        c_[-1:] = ['yk_fault_if((uint8_t)(%s));' % cnd, ('goto', b_)]
                    elif b_ in fb and a_ not in fb:
                        c_[-1:] = ['yk_fault_if((uint8_t)!(%s));' % cnd, ('goto', a_)]
        info = dict(name=raw(name), cname=cname, blocks=len(blocks), loops=[])
        t.fninfo[cname] = info
        t.emit_fn(name, cname, sig, ret, args, order, pos, code, phis, decl, flags, coro, info)

    def emit_fn(t, name, cname, sig, ret, args, order, pos, code, phis, decl, flags, coro, info):
        o = [sig, '{']
        for v, ty in sorted(decl.items()):
            o.append('  %s%s %s;' % ('static ' if coro else '', ty, v))
        nres = [0]
        if coro:
            for i, (ty, an) in enumerate(args):
                o.append('  static %s v_%s;' % (t.c(ty), san(an) if an else str(i)))
            o.append('  /*YK_DISPATCH*/')
            for i, (ty, an) in enumerate(args):
                o.append('  v_%s = %s__a%d;' % (san(an) if an else str(i), cname, i))
        loopmarks = []

        def edge(frm, to):
            s = []
            ph = phis.get(to, [])
            if len(ph) == 1:
                s.append('%s = %s;' % (ph[0][0], ph[0][2][frm]))
            elif ph:
                for (d, ty, inc) in ph:
                    s.append('%s %s_t = %s;' % (t.c(ty), d, inc[frm]))
                for (d, ty, inc) in ph:
                    s.append('%s = %s_t;' % (d, d))
            s.append('goto B_%s;' % san(to))
            back = pos[to] <= pos[frm]
            return '{ ' + ' '.join(s) + ' }', (to if back else None)

        def cond_is_const_cmp(blk, cvar):
            for st_ in code[blk]:
                if isinstance(st_, str) and st_.startswith(cvar + ' = (uint8_t)('):
                    if re.match(r'^v_\w+ = \(uint8_t\)\(\(uintptr_t\)v_\w+ (==|!=) \(uintptr_t\)v_\w+\);$', st_):
                        return True   # pointer walk over an array: usually a fixed-size member array
                    mm = re.match(r'^v_\w+ = \(uint8_t\)\((.*) (==|!=|<|>|<=|>=) (.*)\);$', st_)
                    # one side is an SSA value, the other a constant expression (integer or address constant)
                    return mm is not None and ((re.search(r'\bv_\w', mm.group(3)) is None) != (re.search(r'\bv_\w', mm.group(1)) is None))
            return False

        def loop_kind(frm, to):
            # blocks between target and source in layout order approximate the loop body
            body = order[pos[to]:pos[frm] + 1]
            if any('sync' in flags[b] for b in body):
                return 'sync'
            # constant trip count: the loop's exit test (in the latch, else in the header) compares with a constant
            for b in (frm, to):
                for s_ in code[b]:
                    if isinstance(s_, tuple) and s_[0] == 'cbr':
                        tg = (s_[2], s_[3])
                        leaves = any(pos[x] < pos[to] or pos[x] > pos[frm] for x in tg)
                        if leaves and re.fullmatch(r'v_\w+', s_[1]) and cond_is_const_cmp(b, s_[1]):
                            return 'const'
            return 'data'
        for lab in order:
            o.append(' B_%s: ;' % san(lab))
            for s in code[lab]:
                if isinstance(s, tuple):
                    if s[0] == 'goto':
                        e, bk = edge(lab, s[1])
                        if bk:
                            loopmarks.append((len(o), loop_kind(lab, bk)))
                        o.append('  ' + e)
                    elif s[0] == 'cbr':
                        e1, b1 = edge(lab, s[2])
                        e2, b2 = edge(lab, s[3])
                        # one statement per line so that each backward goto has its own line
                        o.append('  if (%s)' % s[1])
                        if b1:
                            loopmarks.append((len(o), loop_kind(lab, b1)))
                        o.append('    ' + e1)
                        o.append('  else')
                        if b2:
                            loopmarks.append((len(o), loop_kind(lab, b2)))
                        o.append('    ' + e2)
                    elif s[0] == 'switch':
                        o.append('  switch (%s) {' % s[1])
                        for cv, tgt in s[3]:
                            e, bk = edge(lab, tgt)
                            if bk:
                                loopmarks.append((len(o), loop_kind(lab, bk)))
                            o.append('    case %s: %s' % (re.search(r'(\d+)ULL', cv).group(1) + 'ULL', e))
                        e, bk = edge(lab, s[2])
                        if bk:
                            loopmarks.append((len(o), loop_kind(lab, bk)))
                        o.append('    default: %s' % e)
                        o.append('  }')
                    elif s[0] == 'ret':
                        if coro:
                            if s[1] is not None:
                                o.append('  %s__ret = %s;' % (cname, s[1]))
                            o.append('  %s__pc = 0U; return 0;' % cname)
                        else:
                            o.append('  return;' if s[1] is None else '  return %s;' % s[1])
                    elif s[0] == 'cocall':
                        nres[0] += 1
                        asg = ' '.join('%s__a%d = %s;' % (s[1], i, a) for i, a in enumerate(s[2]))
                        o.append('  %s %s__pc = 0U;' % (asg, s[1]))
                        o.append('  %s__pc = %dU; R_%d: ; if (%s()) return 1;' % (cname, nres[0], nres[0], s[1]))
                        if s[3] is not None:
                            o.append('  %s = %s__ret;' % (s[3], s[1]))
                    elif s[0] == 'call':
                        o.append('  ' + (s[2] + ';' if s[1] is None else '%s = %s;' % (s[1], s[2])))
                    elif s[0] == 'hook':
                        if coro:
                            nres[0] += 1
                            t.nsite += 1
                            t.sites.append((t.nsite, cname, int(s[1])))
                            o.append('  %s__pc = %dU; if (yk_preempt_s(%d, (const void*)%s, %dU)) return 1; R_%d: ;' % (cname, nres[0], s[1], s[2], t.nsite, nres[0]))
                        elif t.opts.get('intruder'):
                            # intruder mode (kind S, two context switches): plain code; at ONE hook site (fixed per query) the
                            # other thread's whole operation is called from inside the hook
                            t.nsite += 1
                            t.sites.append((t.nsite, cname, int(s[1])))
                            if int(s[1]) in (0, 1):
                                # the call of the other thread sits at the hook's call site (not inside a runtime function: B's own
                                # hooks would make that function recursive for CBMC)
                                o.append('  if (yk_fire_here(%dU)) { yk_fire_begin(%dU); yk_intruder_fn(); yk_fire_end(); } yk_hook(%d, (const void*)%s);' % (
                                    t.nsite, t.nsite, s[1], s[2]))
                            else:
                                o.append('  yk_hook(%d, (const void*)%s);' % (s[1], s[2]))
                        else:
                            o.append('  yk_hook(%d, (const void*)%s);' % (s[1], s[2]))
                else:
                    o.append('  ' + s)
        o.append('}')
        if coro:
            di = o.index('  /*YK_DISPATCH*/')
            disp = '  switch (%s__pc) { case 0U: break; ' % cname + ' '.join('case %dU: goto R_%d;' % (k, k) for k in range(1, nres[0] + 1)) + ' default: break; }'
            o[di] = disp
            info['resume_points'] = nres[0]
        info['loopmarks'] = loopmarks   # (line offset inside this function's text, kind)
        t.bodies.append((cname, o))

    # ---- globals
    def const_init(t, p, ty):
        """C initializer (brace form) for an LLVM constant of type ty"""
        m = t.mod
        tok = p.peek()
        body = m.body_of(ty) if ty.k == 'named' else ty
        if tok == 'zeroinitializer':
            p.next()
            return '{0}' if body.k in ('struct', 'array') else '0'
        if tok in ('undef', 'poison'):
            p.next()
            return '{0}' if body.k in ('struct', 'array') else '0'
        if tok is not None and tok.startswith('c"'):
            p.next()
            s = tok[2:-1]
            bs = []
            i = 0
            while i < len(s):
                if s[i] == '\\':
                    bs.append(int(s[i + 1:i + 3], 16))
                    i += 3
                else:
                    bs.append(ord(s[i]))
                    i += 1
            return '{{%s}}' % ','.join(str(b) for b in bs)
        if tok == '{' or tok == '[' or (tok == '<' and p.peek(1) == '{'):
            pk = False
            if tok == '<':
                p.next()
                pk = True
            open_ = p.next()
            close = '}' if open_ == '{' else ']'
            vals = []
            if not p.eat(close):
                while True:
                    ety = p.type()
                    skip_attrs(p)
                    vals.append(t.const_init(p, ety))
                    if p.eat(close):
                        break
                    p.expect(',')
            if pk:
                p.expect('>')
            if open_ == '{':
                return '{%s}' % ', '.join(vals)
            return '{{%s}}' % ', '.join(vals)
        return t.value(p, ty)

    def emit_global(t, g):
        m = t.mod
        ty, init, ext = m.globals[g]
        cty = t.c(ty)
        if ty.k in ('func',):
            return None
        name = 'g_' + san(g)
        if init is None:
            return '%s %s;' % (cty, name)
        p = P(init, m)
        try:
            e = t.const_init(p, ty)
        except Exception as ex:
            raise SyntaxError('global %s: %s' % (g, ex))
        return '%s %s = %s;' % (cty, name, e)


def translate(text, roots, opts=None):
    """returns (C source text, info dict)"""
    opts = opts or {}
    mod = parse_module(text)
    t = Translator(mod, opts)
    done = set()
    gdone = []
    work = ['@' + r if not r.startswith('@') else r for r in roots]
    missing = []
    gl_text = {}
    coro = list(opts.get('coroutines', []))
    nested = bool(opts.get('nested_coroutines'))
    # pre-pass: direct call graph and which functions contain a hook
    callg, has_hook = {}, set()
    for fn_, lines in mod.defs.items():
        cs = set()
        for l in lines[1:]:
            for mm in re.finditer(r'call [^@\n]*?(@"(?:[^"\\]|\\.)*"|@[A-Za-z0-9_.$]+)\(', l):
                c = mm.group(1)
                if c == '@yakushima_verif_hook':
                    has_hook.add(fn_)
                else:
                    cs.add(c)
        callg[fn_] = cs
    hooky = set(has_hook)
    changed = True
    while changed:
        changed = False
        for fn_, cs in callg.items():
            if fn_ not in hooky and any(c in hooky for c in cs):
                hooky.add(fn_)
                changed = True
    # functions on a call-graph cycle cannot have a static frame: they stay plain (their hooks run atomically)
    def on_cycle(f0):
        seen, stack = set(), list(callg.get(f0, ()))
        while stack:
            g = stack.pop()
            if g == f0:
                return True
            if g in seen:
                continue
            seen.add(g)
            stack.extend(callg.get(g, ()))
        return False
    recursive = set(f for f in hooky if on_cycle(f))
    t.hooky_co = (hooky - recursive) if nested else set()
    atomic_callees = set()
    work = []
    for r in roots:
        n = '@' + r if not r.startswith('@') else r
        if raw(n) in coro:
            work.append((n, 'T%d_' % coro.index(raw(n)) if nested else '', True))
        else:
            work.append((n, '', False))
    while work:
        n, prefix, is_co = work.pop()
        key = (n, prefix if is_co else '')
        if key in done:
            continue
        done.add(key)
        if n in mod.defs:
            t.used = set()
            t.co_used = set()
            t.translate_fn(n, coro=is_co, prefix=prefix)
            for u in sorted(t.used):          # sorted: site ids / emission order must not depend on set iteration order
                if u in t.co_used and is_co:
                    continue
                if is_co and u in mod.defs and u in hooky:
                    atomic_callees.add(raw(u))
                work.append((u, '', False))
            for u in sorted(t.co_used):
                work.append((u, prefix, True))
        elif n in mod.globals:
            t.used = set()
            gl_text[n] = t.emit_global(n)
            gdone.append(n)
            work.extend((u, '', False) for u in sorted(t.used))
        elif n in mod.decls:
            pass
        else:
            raise SyntaxError('unknown symbol ' + n)
    done_names = set(k[0] for k in done)
    out = []
    out.append('#include "rt.h"')
    emitted = set()
    for n in mod.named:
        out.append('struct S_%s;' % san(mod.resolve_named(n)))

    def emit_ty(ty):
        if ty.k == 'named':
            nm = mod.resolve_named(ty.name)
            if nm in emitted:
                return
            emitted.add(nm)
            body = mod.named[nm]
            if body.k != 'struct':
                out.append('struct S_%s { char opaque; };' % san(nm))
                return
            for e in body.mem:
                emit_dep(e)
            out.append('struct %sS_%s { %s };' % ('__attribute__((packed)) ' if body.packed else '', san(nm),
                       ' '.join('%s f%d;' % (mod.c(e), i) for i, e in enumerate(body.mem)) or 'char empty;'))
        elif ty.k == 'struct':
            if ty.lname in emitted:
                return
            emitted.add(ty.lname)
            for e in ty.mem:
                emit_dep(e)
            out.append('struct %s%s { %s };' % ('__attribute__((packed)) ' if ty.packed else '', ty.lname,
                       ' '.join('%s f%d;' % (mod.c(e), i) for i, e in enumerate(ty.mem)) or 'char empty;'))
        elif ty.k == 'array':
            if ty.lname in emitted:
                return
            emitted.add(ty.lname)
            emit_dep(ty.el)
            out.append('struct %s { %s a[%d]; };' % (ty.lname, mod.c(ty.el), max(ty.n, 1)))

    def emit_dep(ty):
        if ty.k in ('named', 'struct', 'array'):
            emit_ty(ty)
    for n in list(mod.named):
        emit_ty(Ty('named', name=n))
    for n in list(mod.lit):
        emit_ty(mod.lit[n])
    # static frames of the coroutines, prototypes of defined functions, then externals with stub bodies
    for fr in t.frames:
        out.append(fr)
    for pr in t.protos:
        out.append(pr)
    ext_bodies = []
    for callee in sorted(x for x in done_names if x in mod.decls and x not in mod.defs):
        rn = raw(callee)
        if rn.startswith('llvm.'):
            continue
        dn, dret, dargs = parse_header(mod.decls[callee], mod)
        ps = []
        for i, (ty, an) in enumerate(dargs):
            ps.append('...' if an == '...' else '%s a%d' % (mod.c(ty), i))
        sig = '%s f_%s(%s)' % (mod.c(dret), san(callee), ', '.join(ps) or 'void')
        stub = find_stub(rn)
        if stub is None:
            missing.append(rn)
            out.append(sig + ';')
            continue
        body = stub[0]
        if body is None:
            # provided by the runtime under its own (unmangled) name
            out.append('#define f_%s %s' % (san(callee), rn))
            continue
        rz = '' if dret.k == 'void' else ('return (%s){0};' % mod.c(dret) if dret.k in ('named', 'struct', 'array') else 'return (%s)0;' % mod.c(dret))
        body = body.replace('RETZERO', rz).replace('RET', mod.c(dret))
        if dret.k != 'void' and 'return' not in body:
            body += ' ' + rz
        out.append(sig + ';')
        ext_bodies.append('%s { %s }' % (sig, body))
    # globals: tentative declarations first, then definitions
    for g in gdone:
        ty = mod.globals[g][0]
        if gl_text[g] is not None:
            out.append('%s g_%s;' % (mod.c(ty), san(g)))
    for g in gdone:
        if gl_text[g] is not None and '=' in gl_text[g]:
            out.append(gl_text[g])
    out.extend(ext_bodies)
    # function bodies; record absolute line numbers of loop back-edges
    loops = []
    for b in t.bodies:
        if isinstance(b, str):
            out.extend(b.split('\n'))
            continue
        cname, lines = b
        base = len(out)
        for (off, kind) in t.fninfo[cname].get('loopmarks', []):
            loops.append(dict(fn=cname, line=base + off + 1, kind=kind))
        out.extend(lines)
        out.append('')
    # recursive functions (cycles in the direct call graph): CBMC bounds them through the unwindset by function name
    rec = set()
    for f0 in t.calls:
        seen, stack = set(), list(t.calls.get(f0, ()))
        while stack:
            g = stack.pop()
            if g == f0:
                rec.add(f0)
                break
            if g in seen:
                continue
            seen.add(g)
            stack.extend(t.calls.get(g, ()))
    info = dict(recursive=sorted('f_' + san(x) for x in rec), address_taken=sorted('f_' + san(x) for x in t.addr_taken), functions=sorted(raw(x) for x in done_names if x in mod.defs),
                sites=[list(x) for x in t.sites], coroutine_clones=sorted('%s%s' % (k[1], raw(k[0])) for k in done if k[1]), atomic_callees=sorted(atomic_callees),
                externals=sorted(raw(x) for x in done_names if x in mod.decls and x not in mod.defs),
                missing=sorted(set(missing)), loops=loops, cuts=t.cut_hit,
                ir_lines={raw(x): len(mod.defs[x]) for x in done_names if x in mod.defs})
    return '\n'.join(out) + '\n', info


def main():
    import argparse
    ap = argparse.ArgumentParser()
    ap.add_argument('ll')
    ap.add_argument('out')
    ap.add_argument('roots', nargs='+')
    ap.add_argument('--cut', action='append', default=[])
    ap.add_argument('--info')
    a = ap.parse_args()
    src, info = translate(open(a.ll).read(), a.roots, dict(cuts=a.cut))
    open(a.out, 'w').write(src)
    if a.info:
        json.dump(info, open(a.info, 'w'), indent=1)
    if info['missing']:
        sys.stderr.write('UNRESOLVED externals: %s\n' % ' '.join(info['missing']))
        sys.exit(2)
    print('translated %d functions, %d loops' % (len(info['functions']), len(info['loops'])))


if __name__ == '__main__':
    main()
