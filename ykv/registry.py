"""Which harness decides which property (DESIGN.md section 4).  tier: 'quick' harnesses run in both tiers."""

UNITS = {
    'k_perm': dict(cpp='harness/k_perm.cpp'),
}


def H(unit, fn, what, bounds, tier='quick', **kw):
    d = dict(unit=unit, fn=fn, what=what, bounds=bounds, tier=tier)
    d.update(kw)
    return d


FULL64 = 'full 64-bit word, all counts 0..15, all ranks; slot loops (15) fully unwound'

REGISTRY = {
    'C19': [
        H('k_perm', 'H_perm_insert', 'permutation::insert_rank + get_cnk/get_index_of_rank/get_lowest_key_pos vs positional spec', FULL64),
        H('k_perm', 'H_perm_delete', 'permutation::delete_rank vs positional spec', FULL64),
        H('k_perm', 'H_perm_empty', 'permutation::get_empty_slot returns a slot not in use; its LOG(ERROR) site unreachable', FULL64,
          assumes='pigeonhole (15 slot numbers, <15 in use => one free) is supplied as a witness variable, not derived by the solver'),
        H('k_perm', 'H_perm_split_dest', 'permutation::split_dest(num) = identity on 0..num-1', 'num 0..15'),
        H('k_perm', 'H_perm_set_cnk_init', 'permutation::set_cnk / init', 'full 64-bit word'),
    ],
}

LEVEL_TEXT = {
    'C19': dict(text='Every statement about the permutation word is decided for ALL 64-bit words that encode a valid ordering, all counts 0..15 and '
                     'all ranks by bit-precise symbolic execution of the real permutation members (no sampling); the loops have at most 15 iterations '
                     'and are fully unwound, so inside this unit the bound loses nothing.',
                note='Trusted: clang++-14 front end, ll2c translation (cross-validated on solver witnesses against the g++ build), CBMC+kissat. '
                     'Pigeonhole for get_empty_slot is supplied as a witness variable.', ref='DESIGN.md 4/C19'),
}

_PENDING = 'check under construction in this round (see DESIGN.md section 8 for the order of work); not claimed yet'
NOT_APPLICABLE = {('C%02d' % i): _PENDING for i in range(1, 21)}
