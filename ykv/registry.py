"""Which harness decides which property (DESIGN.md section 4).  tier: 'quick' harnesses run in both tiers."""

UNITS = {
    'k_perm': dict(cpp='harness/k_perm.cpp', all_hooks=True),
    'k_version': dict(cpp='harness/k_version.cpp', all_hooks=True),
    'k_compare': dict(cpp='harness/k_compare.cpp'),
    # T0/T1 without split: functions that the shape cannot reach are cut (a cut is an assertion, DESIGN 2.9(2))
    'n_t1': dict(cpp='harness/n_t1.cpp', cdefs=('YK_VAL_CAP=16',), cuts=('delete_ofILb0', 'get_child_of', 'interior_node9delete_of')),
    'n_t1s': dict(cpp='harness/n_t1.cpp', cdefs=('YK_VAL_CAP=16', 'YK_NALLOC=24')),
    'n_c16': dict(cpp='harness/n_c16.cpp', cdefs=('YK_HAVE_ON_SLEEP', 'YK_HAVE_THREAD_JOIN', 'YK_VAL_CAP=16'), extra_c=('rt/join_epoch_gc.c',), extra_roots=('yk_on_sleep',), sessions=2),
    'n_c14_s1': dict(cpp='harness/n_c16.cpp', cdefs=('YK_HAVE_ON_SLEEP', 'YK_HAVE_THREAD_JOIN', 'YK_VAL_CAP=16'), extra_c=('rt/join_epoch_gc.c',), extra_roots=('yk_on_sleep',), sessions=1),
    'n_c14_s3': dict(cpp='harness/n_c16.cpp', cdefs=('YK_HAVE_ON_SLEEP', 'YK_HAVE_THREAD_JOIN', 'YK_VAL_CAP=16'), extra_c=('rt/join_epoch_gc.c',), extra_roots=('yk_on_sleep',), sessions=3),
    's_version': dict(cpp='harness/s_version.cpp', coroutines=('T_lock_a', 'T_lock_b', 'T_reader'), inline_all=True),
    's_version2': dict(cpp='harness/s_version.cpp', coroutines=('T_lock_a', 'T_flagger'), inline_all=True),
    's_c14': dict(cpp='harness/s_session.cpp', coroutines=('T_enter0', 'T_enter1', 'T_enter2'), inline_all=True, sessions=2, cdefs=('YK_VAL_CAP=16',)),
    's_c14b': dict(cpp='harness/s_session.cpp', coroutines=('T_ele0', 'T_enter1', 'T_enter2'), inline_all=True, sessions=2, cdefs=('YK_VAL_CAP=16',)),
    's_c07': dict(cpp='harness/s_session.cpp', coroutines=('T_reader_session', 'T_remover_session', 'T_epoch', 'T_gc'), inline_all=True, sessions=2, cdefs=('YK_VAL_CAP=16', 'YK_MAX_SLEEPS=2', 'YK_NALLOC=3', 'YK_DRAIN_ROUNDS=1', 'YK_NEV=4')),
    'k_sites': dict(cpp='harness/k_sites.cpp', cdefs=('YK_VAL_CAP=16',)),
    's_c07l': dict(cpp='harness/s_session.cpp', coroutines=('T_reader_open', 'T_remover_session', 'T_epoch'), inline_all=True, sessions=2, cdefs=('YK_VAL_CAP=16', 'YK_MAX_SLEEPS=2', 'YK_NALLOC=3', 'YK_DRAIN_ROUNDS=1')),
    's_c01_gr': dict(cpp='harness/s_point.cpp', coroutines=('T_get0', 'T_remove1'), inline_all=True, cdefs=('YK_VAL_CAP=16', 'YK_NALLOC=4', 'YK_DRAIN_ROUNDS=2'), cuts=('delete_ofILb0', 'get_child_of', 'interior_node9delete_of', '9delete_ofEPvPNS_13tree_instanceEPNS_9base_nodeE')),
    's_c01n': dict(cpp='harness/s_point.cpp', coroutines=('T_get0', 'T_remove1'), nested=True, cdefs=('YK_VAL_CAP=16', 'YK_NALLOC=4', 'YK_DRAIN_ROUNDS=3'), cuts=('delete_ofILb0', 'get_child_of', 'interior_node9delete_of', '9delete_ofEPvPNS_13tree_instanceEPNS_9base_nodeE')),
    'i_point': dict(cpp='harness/s_point.cpp', intruder=True, cdefs=('YK_VAL_CAP=16', 'YK_NALLOC=6', 'YK_MAX_RETRIES=1'), cuts=('delete_ofILb0', 'get_child_of', 'interior_node9delete_of', '9delete_ofEPvPNS_13tree_instanceEPNS_9base_nodeE')),
    'n_misc': dict(cpp='harness/n_misc.cpp', cdefs=('YK_VAL_CAP=64', 'YK_MEMCPY_BUILTIN'), no_typed_arrays=True),
    # scan on T0/T1: no interior node, no vector growth (the harness reserves), no retry clean-up (single thread)
    'n_scan': dict(cpp='harness/n_scan.cpp', cdefs=('YK_VAL_CAP=16', 'YK_NALLOC=12', 'YK_ARR_CAP=4', 'YK_MEMCPY_CAP=16', 'YK_MEMCMP_CAP=16'), defines=('YK_KEYB=2',),
                   cuts=('get_child_of', '17_M_realloc_insert', '8_M_eraseEN')),
    'n_scan2': dict(cpp='harness/n_scan.cpp', cdefs=('YK_VAL_CAP=16', 'YK_NALLOC=16', 'YK_ARR_CAP=6', 'YK_MEMCPY_CAP=16', 'YK_MEMCMP_CAP=16', 'YK_MAX_LAYERS=2'),
                    cuts=('get_child_of', '17_M_realloc_insert', '8_M_eraseEN'), defines=('YK_KEYB=2',)),
    'n_scan3': dict(cpp='harness/n_scan.cpp', cdefs=('YK_VAL_CAP=16', 'YK_NALLOC=16', 'YK_ARR_CAP=6', 'YK_MEMCPY_CAP=16', 'YK_MEMCMP_CAP=16'),
                    cuts=('17_M_realloc_insert', '8_M_eraseEN'), defines=('YK_KEYB=2',)),
    'n_iscan': dict(cpp='harness/n_iscan.cpp', cdefs=('YK_MEMCPY_TI64', 'YK_VAL_CAP=136', 'YK_NALLOC=16', 'YK_ARR_CAP=9', 'YK_MEMCPY_CAP=16', 'YK_MEMCMP_CAP=16', 'YK_MAX_LAYERS=1', 'YK_STR_MAX=30'),
                    cuts=('get_child_of', '17_M_realloc_insert', '8_M_eraseEN', '17_M_reallocate_map', '16_M_push_back_aux', '15_M_pop_back_aux'), defines=('YK_KEYB=2',), new_hints={512: 'iscan_context::stack_element'}),
    'n_storage': dict(cpp='harness/n_storage.cpp', cdefs=('YK_MEMCPY_TI64', 'YK_VAL_CAP=136', 'YK_NALLOC=16', 'YK_ARR_CAP=4', 'YK_MEMCPY_CAP=16', 'YK_MEMCMP_CAP=16'),
                      cuts=('get_child_of', '8_M_eraseEN', 'delete_ofILb0', 'interior_node9delete_of'), defines=('YK_KEYB=2',)),
    'k_value': dict(cpp='harness/k_value.cpp', cdefs=('YK_VAL_CAP=48',)),
}


def H(unit, fn, what, bounds, tier='quick', **kw):
    d = dict(unit=unit, fn=fn, what=what, bounds=bounds, tier=tier)
    d.update(kw)
    return d


FULL64 = 'full 64-bit word, all counts 0..15, all ranks; slot loops (15) fully unwound'

W64 = 'every 64-bit version word (all flag combinations, both 29-bit counters incl. wrap-around)'

TUP = 'all valid (slice,len) tuples: len 0..9, arbitrary bytes incl. 0x00/0xFF, zero padding above len'

T1B = 'shape T1(n) with n concrete; keys: all valid 8-byte slices x lengths 0..8, strictly ascending; 1-byte symbolic values; op key and probe key: all byte strings of length 0..8; version counters concrete'
_T1_GET = [H('n_t1', 'H_t1_get_n%s' % n, 'real get<char> on T1(%s): hit returns the stored body/length, miss returns WARN_NOT_EXIST + checked version' % n, T1B) for n in ('1', '2', '3', '4s')]
_T1_REMOVE = [H('n_t1', 'H_t1_remove_n%d' % n, 'real remove on T1(%d): status, RI(post), probe get == reference map, value retired once with the session epoch, nothing freed' % n, T1B) for n in (1, 2, 3)]
_T1_PUT = [H('n_t1', 'H_t1_put_n%d' % n, 'real put<char> (upsert / unique) on T1(%d): status, RI(post), probe get == reference map, inserted_node_info, version effect, gc conformance' % n, T1B) for n in (1, 2, 3)]
_T0_PUT = [H('n_t1', 'H_t0_put', 'first put into a storage without root (+ get/remove on the empty storage)', 'all keys of length 0..8'),
           H('n_t1', 'H_t0d_put', 're-insert into the empty deleted root that removes leave behind behaves like a fresh storage', 'all keys of length 0..8')]
T15 = 'shape T1(15): ranks 7 and 8 (the neighbours of the split point) symbolic, the other 13 entries concrete 1-byte keys; op key and probe key all byte strings of length 0..8'
_T1_SPLIT_Q = [H('n_t1s', 'H_t1_split_struct', 'put into a FULL root border: border_split + new interior root: structure, separator bounds, links, flags, C12 reporting', T15, data=16, timeout=900)]
_T1_SPLIT_Q.append(H('n_t1s', 'H_t1_split_struct_link', 'same with a next-layer link (length class 9) as 9th entry: an 8-byte key with the link\'s slice must go LEFT of it and the separator stays the first key of the right node',
                      T15 + '; entry 8 is a link with a symbolic slice', data=16, timeout=900))
_T1_SPLIT_T = [H('n_t1s', 'H_t1_split_probe', 'same step: real get of a symbolic probe key on the split tree == reference map (the new key may sit exactly at the split point)', T15, tier='thorough', data=16, timeout=3400),
               H('n_t1s', 'H_t1_split_probe_scr', 'same with scrambled slots', T15, tier='thorough', data=16, timeout=3400)]
# the probe variants of the split step (real get of a symbolic probe key on the split tree) did not finish in 3400 s and are not
# registered (they stay in harness/n_t1.cpp): _T1_SPLIT_T
_T1_BIG = _T1_SPLIT_Q

SCANREQ = 'request fully symbolic: l_key/r_key 0..10 bytes, all 9 endpoint-kind pairs, max_size 0..entries+1, both directions (incl. every ERR_BAD_USAGE combination)'
KEYB2 = '; key bytes: the first 2 bytes of every 8-byte slice symbolic (all lengths 0..8 / prefixes / 0x00 padding cases), the rest 0x00'
_SCAN_Q = [
    H('n_scan', 'H_scan_t0', 'real scan on a storage without root: OK_ROOT_IS_NULL / ERR_BAD_USAGE exactly as documented', SCANREQ, data=1),
    H('n_scan', 'H_scan_t0d', 'real scan on the empty deleted root: OK + empty result, node set = {root border}', SCANREQ, data=1),
    H('n_scan', 'H_scan_t1_n1', 'real scan<char> on T1(1) vs reference interval filter (order, keys, values, lengths, truncation, direction, bad usage)', 'T1(1); ' + SCANREQ + KEYB2, data=1),
    H('n_scan', 'H_scan_t1_n1_long', 'same with endpoint keys of up to 264 bytes (the length does not fit the 8-bit key_length_type used inside nodes), forward', 'T1(1); endpoint keys 0..264 bytes (at most one of them longer than 16), bytes beyond the 10th 0x00' + KEYB2, data=1, timeout=900),
    H('n_scan', 'H_scan_t1_n2', 'same on T1(2), scrambled slots', 'T1(2); ' + SCANREQ + KEYB2, data=1, timeout=900),
    H('n_scan3', 'H_scan_t3_11_linf', 'interior root over two borders, forward scan with l_end = INF and an ARBITRARY l_key (INF must ignore its key), right endpoint symbolic: the scan crosses a node boundary', 'T3(2;1,1); l_end INF, l_key/r_key 0..10 bytes, r_end all kinds, max_size 0..3, forward' + KEYB2, data=2, timeout=1500),
    H('n_scan3', 'H_scan_t3_11_lfin', 'same with an INCLUSIVE left endpoint (the scan starts in the border that holds l_key)', 'T3(2;1,1); l_end INCLUSIVE, forward' + KEYB2, data=2, timeout=1500),
]
# two-layer shapes (H_scan_t2_*, H_c05_scan_put_t2_*): the recursive scan_border -> scan -> scan_border chain over std::string
# prefixes does not finish in 1500 s even on T2(1;1); the harnesses stay in harness/n_scan.cpp, unregistered (DESIGN.md 11)
_SCAN_T = [
    H('n_scan', 'H_scan_t1_n3', 'scan on T1(3)', 'T1(3); ' + SCANREQ + KEYB2, data=1, tier='thorough', timeout=3400),
    H('n_scan3', 'H_scan_t3_11', 'scan on an interior root over two borders, request fully symbolic (all endpoint kinds, both directions)', 'T3(2;1,1); ' + SCANREQ + KEYB2, data=2, tier='thorough', timeout=3400),
    H('n_scan3', 'H_scan_t3_12', 'scan on T3(2;1,2)', 'T3(2;1,2); ' + SCANREQ + KEYB2, data=2, tier='thorough', timeout=3400),
]
_C05_SCAN_Q = [
    H('n_scan', 'H_c05_scan_put_t1_n1', 'scan with node_version_vec on T1(1), then the real insert of an absent key of the covered interval: some collected pair is stale; set never empty', 'T1(1); ' + SCANREQ + KEYB2, data=1, timeout=900),
]
_C05_SCAN_T = [
    H('n_scan', 'H_c05_scan_put_t1_n2', 'scan + insert on T1(2)', 'T1(2); ' + SCANREQ + KEYB2, data=1, tier='thorough', timeout=3400),
]

I2 = ('all schedules with at most TWO context switches at hook granularity (every atomic load/store of shared memory is a hook): A runs up to a hook, '
      'B runs its WHOLE operation there, A finishes (its optimistic retries enabled, <= 1 retry per path, checked); site and visit of the switch '
      'are case-split over queries (all sites on the path of A, visits 1..2), keys/values symbolic; SC')
_GET_FUNCS = ['op_getEi$', 'L11find_border', 'border_node9get_lv_ofE']
_REMOVE_FUNCS = ['op_removeEi$', 'L11find_border', 'border_node9get_lv_ofE', '22get_lv_of_without_lock', 'node_version644lockEv', 'delete_ofILb1', 'lock_parent', 'root_lockEv', 'border_node9delete_atE']
_C01_Q = [
    H('i_point', 'H_i_get_remove_a0', 'get(k0) pre-empted at any hook of the get body itself (between locating the slot and the final validation), remove(k1) runs there completely: an OK get has a non-null value with exactly the stored bytes; results linearizable; quiescent state well-formed; no lock left',
      'T1(2); A=get, B=remove; hook sites inside get<char> (not those inside find_border/get_lv_of: thorough tier), first visit; ' + I2, data=4, sync=2, timeout=1500,
      windows=dict(funcs=['op_getEi$'], visits=(1,))),
]
_C01_PUT = [
    H('i_point', 'H_i_get_put_a0', 'get(k0) pre-empted at any hook of the get body, put(k1) (insert / overwrite / rejected unique insert) runs there completely: the reader gets the complete old or the complete new (pointer, length), the old block is intact at response time',
      'T1(2) -> T1(2|3); A=get, B=put; ' + I2, data=4, sync=2, timeout=3000, tier='thorough', windows=dict(funcs=['op_getEi$'], visits=(1,))),
]
_C01_I = [
    H('i_point', 'H_i_get_remove_a0', 'get(k0) pre-empted at any hook, remove(k1) runs there completely (same or different key): results linearizable, an OK get has a non-null value with exactly the stored bytes, quiescent state well-formed, no lock left',
      'T1(2); A=get, B=remove; hook sites of the get body and of find_border, visits 1 and 2 (the sites inside the entry loop of get_lv_of exceed 24 GB per query and are not registered); ' + I2,
      data=4, sync=2, timeout=3000, tier='thorough', windows=dict(funcs=['op_getEi$', 'L11find_border'], visits=(1, 2))),
    # H_i_get_remove_a1 (remove pre-empted, get atomic): inside remove's critical section the reader cannot complete (it waits for
    # the dirty bits), so no two-switch schedule exists there - the harness is vacuous at those sites and is not registered
]

NAMES = 'storage names: all byte strings of 0..8 bytes (binary, empty, prefixes of each other), first 2 bytes of the slice symbolic'
_C13 = [
    H('n_storage', 'H_c13_find_get_n1', 'find_storage + data get BY NAME on a directory with one storage: OK/instance iff the name exists, unknown name => WARN_STORAGE_NOT_EXIST, only that storage\'s keys visible', 'directory T1(1), data tree T1(1); ' + NAMES, data=2),
    H('n_storage', 'H_c13_find_get_n2', 'same with two storages: a key stored under one name is not visible under the other', 'directory T1(2), two data trees T1(1); ' + NAMES, data=2, timeout=900),
    H('n_storage', 'H_c13_list_n1', 'list_storages: every name, ascending, with its instance (std::vector growth from the IR)', 'directory T1(1); ' + NAMES, data=2, timeout=900),
    # H_c13_list_n2 (two storages) and H_c13_put_isolated_n1 (data put by name) exceed 24 GB / the budget and are not registered
]

REGISTRY = {
    'C13': _C13,
    'C01': _C01_Q + _C01_I,
    'C03': _SCAN_Q + _SCAN_T,
    'C05': [
        H('n_t1', 'H_c05_get_miss_put_n1', 'get miss with checked_version on T1(1), then the real insert of that key: the recorded pair is stale', T1B),
        H('n_t1', 'H_c05_get_miss_put_n3', 'same on T1(3), scrambled slots', T1B),
        H('n_t1', 'H_c05_get_miss_put_t0d', 'same on the empty deleted root: the pair is never empty for an existing storage', 'all keys 0..8 bytes'),
    ] + [H('n_t1', 'H_t1_get_n%s' % n, 'get miss reports (stable version, node) of the border it examined', T1B) for n in ('1', '2', '3')] + _C05_SCAN_Q + _C05_SCAN_T,
    'C11': [
        H('n_c16', 'H_c16_two_cycles', 'init; retire; [leave]; fin; init; fin: fin() releases what sessions retired (also with a session left open) and the thread objects', 'sessions=2; 2 cycles'),
    ] + _T1_PUT + _T1_REMOVE,
    'C09': [
        H('s_version', 'H_ver_two_lockers_one_reader', 'node lock: two lockers + stable-version reader always complete (fair continuation), lock released, no dirty bit', 'NT=3, CTX=5', sync=3, timeout=900),
        H('s_c14', 'H_c14_concurrent_enter', 'session acquisition never blocks: all enters complete', 'NT=3, CTX=6', sync=3, timeout=1200),
    ] + _T1_GET + _T1_REMOVE + _T1_PUT + _C01_Q + [h for h in _C01_I],
    'C20': [
        H('n_misc', 'H_c20_t1_n1', 'real mem_usage (virtual dispatch) on T1(1): values of symbolic length 0..8 and alignment 1..16', 'exact node count / reserved / used bytes', unwind={'_M_realloc': 3, 'mem_usageE': 2}, timeout=600),
        H('n_misc', 'H_c20_t3', 'interior root over two leaves: per-level node counts and footprints', 'T3(2;1,2)', unwind={'_M_realloc': 3, 'mem_usageE': 2}, timeout=600),
    ],
    'C07': [
        H('s_c07l', 'H_c07_lean_t1', 'real enter/leave + epoch_thread + garbage_collection: reader session (left open) || remover session (unlink, retire) || epoch thread, then real gc passes: memory obtained inside the open session is not released', 'NT=3, sessions=2, template remover/epoch/reader/remover (4 contexts, every pre-emption point symbolic), <=2 epoch periods, SC', sync=3, timeout=2400),
    ],
    'C14': [
        H('s_c14', 'H_c14_concurrent_enter', '3 concurrent real enter() calls on 2 slots: distinct tokens, capacity, exactly min(3,2) succeed, open sessions counted', 'NT=3, capacity 2, CTX=6 contexts + fair continuation, hook granularity, SC', sync=3, timeout=1200),
        H('s_c14b', 'H_c14_concurrent_enter_leave', 'enter;leave;enter racing two enters: exclusivity and capacity at every moment, slot reuse', 'NT=3, capacity 2, CTX=6', sync=3, timeout=1200),
        H('n_c16', 'H_c14_enter_leave_seq', 'real enter/leave on an ARBITRARY slot table: OK iff a slot is free, exclusive slot, counted until leave, reuse', 'capacity 2; all 2^2 occupancy states, arbitrary epochs'),
        H('n_c14_s1', 'H_c14_enter_leave_seq', 'same, capacity 1', 'capacity 1'),
        H('n_c14_s3', 'H_c14_enter_leave_seq', 'same, capacity 3', 'capacity 3; all 2^3 occupancy states'),
    ],
    'C16': [
        H('n_c16', 'H_c16_epoch_runs_every_cycle', 'init() from the state ANY number of earlier cycles can leave: slots free/reusable, real epoch_thread body keeps advancing the epoch', 'sessions=2; stop flags/epoch/slot residue arbitrary; 3 epoch periods', tags=(1,)),
        H('n_c16', 'H_c16_slots_free_every_cycle', 'init() from any earlier state: every slot free, tokens distinct, capacity exact, reuse after leave', 'sessions=2'),
        H('n_c16', 'H_c16_gc_runs_every_cycle', 'init() from any earlier state: real gc_thread body reclaims an eligible retired block and keeps running', 'sessions=2; 2 gc periods', tags=(2,)),
        H('n_c16', 'H_c16_two_cycles', 'real init(); ops; fin(); init(); fin(): fin terminates (thread bodies return), releases everything even with a session left open, next cycle clean', 'sessions=2; 2 cycles'),
    ],
    'C02': _T1_GET + _T1_REMOVE + _T1_PUT + _T0_PUT + _T1_BIG,
    'C08': _T1_REMOVE + _T1_PUT + _T0_PUT + _T1_BIG + [h for h in _SCAN_Q if h['fn'] in ('H_scan_t1_n2', 'H_scan_t3_11_linf')],
    'C12': _T1_PUT + _T0_PUT + _T1_BIG,
    'C15': [
        H('k_value', 'H_val_create_roundtrip', 'value::create_value<false> -> get_body/get_len/get_gc_info/need_delete/delete_value + link_or_value::set_value', 'v_len 0..12 symbolic bytes, align 1..32'),
        H('k_value', 'H_val_inline', 'create_value<true> / link_or_value with pointer-typed values', 'every 62-bit word'),
        H('k_value', 'H_val_header_arith', 'header arithmetic of value for the documented range', 'v_len 0..8 MiB, align 1..4096'),
    ],
    'C18': [
        H('k_compare', 'H_cmp_tuple_pair', 'key_tuple operator< > <= >= == != vs bytewise lexicographic reference (all pairs)', TUP),
        H('k_compare', 'H_cmp_tuple_triple', 'transitivity on all triples; min()/max() sentinels', TUP),
        H('k_sites', 'H_site_get_child_of_1', 'interior_node::get_child_of routing vs reference order, 1 separator', TUP),
        H('k_sites', 'H_site_get_child_of_2', 'interior_node::get_child_of routing, 2 separators', TUP),
        H('k_sites', 'H_site_get_child_of_3', 'interior_node::get_child_of routing, 3 separators', TUP),
        H('k_sites', 'H_site_interior_insert_1', 'interior_node::insert position of separator and child, 1 separator', TUP),
        H('k_sites', 'H_site_interior_insert_2', 'interior_node::insert position, 2 separators', TUP),
        H('k_sites', 'H_site_interior_insert_3', 'interior_node::insert position, 3 separators', TUP),
        H('k_sites', 'H_site_leaf_1', 'border_node::get_lv_of / get_lv_of_without_lock / compute_rank_if_insert, 1 entry', TUP),
        H('k_sites', 'H_site_leaf_2', 'leaf lookup and rank, 2 entries (scrambled slots)', TUP),
        H('k_sites', 'H_site_leaf_3', 'leaf lookup and rank, 3 entries', TUP),
        H('k_compare', 'H_cmp_tuple_from_view', 'key_tuple(string_view): slice/len of the first layer, keys of 0..10 bytes', 'all byte strings of length 0..10'),
    ],
    'C17': [
        H('k_version', 'H_ver_layout', 'the 8 public getters partition the 64-bit word; operator== is word equality', W64),
        H('k_version', 'H_ver_unlock', 'node_version64::unlock vs the protocol, one CAS', W64),
        H('k_version', 'H_ver_setters', 'atomic_set_{border,deleted,inserting_deleting,root,splitting}, atomic_inc_vinsert, lock: exactly their own field, one CAS', W64),
        H('k_version', 'H_ver_stable', 'get_stable_version returns the word itself, only when clean', W64),
        H('k_version', 'H_ver_stable_dirty_waits', 'exit test of get_stable_version is false on every locked/dirty word', W64),
        H('k_version', 'H_ver_lock_cycle', 'lock; flag; unlock: stable versions equal iff nothing flagged', W64),
        H('s_version2', 'H_ver_locker_vs_flagger', 'locker (lock; set flags; unlock) || thread flipping root/deleted through the atomic setters without the lock: every field keeps the value of its last writer', 'NT=2, CTX=5 contexts + fair continuation, hook granularity, SC', sync=3, timeout=900),
        H('s_version', 'H_ver_two_lockers_one_reader', 'two lockers (lock; set flags; unlock) || reader taking two stable versions: mutual exclusion, no dirty stable version, equal versions => no flagged unlock in between, quiescent word exact', 'NT=3, CTX=5 contexts + fair continuation, hook granularity, SC; flags symbolic, counters at the wrap boundary', sync=3, timeout=900),
    ],
    'C19': [
        H('k_perm', 'H_perm_insert', 'permutation::insert_rank + get_cnk/get_index_of_rank/get_lowest_key_pos vs positional spec', FULL64),
        H('k_perm', 'H_perm_delete', 'permutation::delete_rank vs positional spec', FULL64),
        H('k_perm', 'H_perm_empty', 'permutation::get_empty_slot returns a slot not in use; its LOG(ERROR) site unreachable', FULL64,
          assumes='pigeonhole (15 slot numbers, <15 in use => one free) is supplied as a witness variable, not derived by the solver'),
        H('k_perm', 'H_perm_split_dest', 'permutation::split_dest(num) = identity on 0..num-1', 'num 0..15'),
        H('k_perm', 'H_perm_set_cnk_init', 'permutation::set_cnk / init', 'full 64-bit word'),
    ],
}

LEVEL_TEXT = {
    'C01': dict(text='Two real point operations on one storage are executed symbolically under EVERY schedule with at most two context switches: the pre-empted operation (A) is the plain '
                     'translated code; at one hook site (every atomic access to shared memory is a hook; the site and the visit are fixed per query, all sites on A\'s path are enumerated as separate '
                     'solver queries) the WHOLE other operation (B) is called from inside the hook, then A continues with its optimistic retries enabled. Keys, values and node contents are symbolic. '
                     'Asserted: results equal one of the serial orders, an OK get returns a non-null pointer to exactly the stored bytes, the quiescent node is well-formed, no lock is left, nobody waits. '
                     'The solver schedule is replayed on the g++ build (B is called inside the same dynamic hook). This found the null-value defect of get (fixed, known_findings.json).',
                note='Bounds: pair get||remove on T1(2) (quick: the hook sites of the get body, first visit; thorough: get body + find_border sites, two visits; the sites inside the entry loop of get_lv_of cost > 24 GB per query and are not covered); at most two context switches, i.e. B is never suspended: '
                     'a schedule in which B would have to wait for A or to retry on A\'s transient state needs a third switch and is outside the claim, as are put (insert/overwrite/split) pairs, '
                     'more than two operations, interior nodes and layers; <= 1 optimistic retry of A per path (an assertion reports if more are needed); SC at hook granularity. '
                     'The free-schedule sequentialization (coroutines, CTX contexts) of the same pair does not finish (DESIGN.md 11). The serial orders are the C02 harnesses.',
                ref='DESIGN.md 11/C01', sched=True),
    'C03': dict(text='The real scan<char> (tree-level entry, scan_border, find_border; std::string / std::vector code from the IR, operator new of vector storage as typed arrays) is executed symbolically '
                     'on directly built shapes with symbolic keys and a symbolic request (both endpoint keys, all nine endpoint-kind pairs, max_size, direction) and compared with a reference that filters the '
                     'shape\'s entries by bytewise lexicographic order: exact key set, ascending order, value pointer and length, truncation to max_size / greatest entry for right_to_left, INF ignoring its key, '
                     'ERR_BAD_USAGE exactly for the documented invalid requests, OK_ROOT_IS_NULL on a storage without root.',
                note='Bounds: shapes T0, T0d, T1(1), T1(2), T3(2;1,1) quick; T1(3), T3(2;1,2) thorough; endpoint keys 0..10 bytes (one harness: 0..264 bytes, the lengths that do not fit key_length_type); '
                     'stored keys 0..8 bytes with the first two bytes of the slice symbolic. Two-layer shapes (T2) are NOT decided: the recursive layer scan did not finish in 1500 s, so endpoint translation '
                     'between layers is outside this check. WARN_STORAGE_NOT_EXIST by name is decided under C13. Found and fixed: INF did not ignore l_key (known_findings.json).',
                ref='DESIGN.md 11/C03'),
    'C13': dict(text='The directory of storages is built directly (a root border whose values are tree_instance objects, as create_storage leaves it) with symbolic names; then one real call BY NAME: '
                     'find_storage, data get, list_storages. Asserted: lookup succeeds with the right instance iff the name exists, WARN_STORAGE_NOT_EXIST otherwise; a key of one storage is not '
                     'visible under another name; list returns every name ascending with its instance.',
                note='Bounds: 1-2 storages for lookup, 1 storage for list; names 0..8 bytes, data trees T1(1). Data PUT by name (harness exists, exceeds the budget), create_storage / delete_storage (enter + put/remove of a tree_instance + destroy) and the concurrent create/create, '
                     'delete/delete half are NOT decided here: the tree operations they are built from are decided under C02, session acquisition under C14.', ref='DESIGN.md 11/C13'),
    'C05': dict(text='(a) get: the real get (miss, with checked_version) followed by the real insert of the missed key, from an arbitrary valid state of T1(1), T1(3) and the empty deleted root: the pair is non-null and stale afterwards. '
                     '(b) scan: the real scan with node_version_vec under a fully symbolic request (interval, max_size, direction), then the real insert of a symbolic ABSENT key of the covered interval '
                     '(for a size-limited read: between its start and the last entry produced): some collected (version, node) pair is stale; the set is never empty for an existing storage (also on the empty deleted root).',
                note='Bounds: T1(1) quick, T1(2) thorough for (b) (the T3 variant exceeds 24 GB and is not registered); keys 0..8 bytes. NOT decided: reads that end on / inside a next-layer link (two-layer shapes do not finish, see C03) - the pinned tree had a '
                     'defect exactly there (F2: empty / incomplete set), shown on the real build through the public API and fixed (known_findings.json), which this check cannot see; '
                     'and the iscan part (C10 is not decidable with this pipeline).', ref='DESIGN.md 4/C05, 11'),
    'C11': dict(text='Release is decided with a ghost allocator (every operator new/delete variant tracked: live count, sized/aligned delete match, double free): fin() draining retired objects also with a session left open, and per-operation accounting of put/remove (nothing freed in place, failed unique insert leaves nothing behind).',
                note='Dropping whole trees (border_node::destroy / interior_node::destroy: harness/n_misc.cpp H_c11_drop_*) produced 18k VCCs / 3.6M SAT variables and is not registered; the API-level destroy()/delete_storage()/create_storage() paths (scan over the storages tree, std::string keys) and cursor objects are outside this check; '
                     'the lost root-creation race is outside (kind S on put did not fit the budget).', ref='DESIGN.md 4/C11'),
    'C09': dict(text='(1) lock level: all interleavings (hook granularity, bounded contexts) of two lockers and a reader on the real node_version64, and of three enters on the session table, end with every thread '
                     'finished in the fair continuation and no lock/dirty bit left; (2) single thread: in every kind-N get/put/remove query a wait (SPIN) or an optimistic retry (RETRY hook) is an assertion failure, '
                     'so a reader never waits on something only itself could change.',
                note='(3) tree level: in the two-context-switch schedules of get||remove (C01 harnesses) a wait after the other operation completed ("lock left held") and a locked / dirty quiescent node are assertion failures. '
                     'Writer/writer schedules (parent lock hand-over, prev-sibling lock order, root replacement) are NOT decided. Liveness under every fair schedule is not a bounded property.', ref='DESIGN.md 4/C09, 11', sched=True),
    'C20': dict(text='The real mem_usage traversal (virtual dispatch through the translated vtables, std::vector growth from the IR) is executed symbolically on concrete shapes '
                     'with symbolic keys and symbolic value lengths/alignments and compared with an independent per-level count of nodes and allocated bytes.',
                note='Shapes T1(1) and T3(2;1,2) (the T1(3) and two-layer T2 harnesses exist in harness/n_misc.cpp but did not finish symex in 15 min - std::vector growth on byte-array heap objects - and are not registered); value lengths 0..8, alignments 1..16; the API wrapper mem_usage(name) adds only find_storage (covered by C13 where registered). '
                     'Monotonicity of used bytes follows from the exact per-occupancy formula checked at two occupancies.', ref='DESIGN.md 4/C20'),
    'C07': dict(text='(i) protocol: the real enter/leave, epoch_thread and garbage_collection code run as sequentialized coroutines; which hook each thread is pre-empted at is symbolic, '
                     'the thread order follows stated templates (the full 4-thread / free-order search exceeds 25 GB); the assertion is "a block obtained inside a session is live while that '
                     'session is open". (ii) call-site conformance: the kind-N put/remove harnesses (C02) assert that every unlinked value is retired exactly once with the caller epoch and nothing is freed in place.',
                note='Tree abstracted to one shared cell in (i). SC at hook granularity: the relaxed publication of begin_epoch is treated as SC (TSO store-buffer delay outside the claim). '
                     'Bounds: 2 sessions, <= 2 epoch periods, 4 contexts + fair continuation.', ref='DESIGN.md 4/C07', sched=True),
    'C14': dict(text='Sequential half: one real enter/leave step from an ARBITRARY slot table (any history) for capacities 1, 2, 3 (YAKUSHIMA_MAX_PARALLEL_SESSIONS is a '
                     'compile flag: one encoding per capacity). Concurrent half (distinct tokens, capacity, WARN_MAX_SESSIONS only if every slot was seen occupied) by '
                     'the sequentialized-schedule harnesses where registered.',
                note='Trusted: clang++-14, ll2c, CBMC+kissat. Larger capacities repeat the same loop body.', ref='DESIGN.md 4/C14', sched=True),
    'C16': dict(text='The real init()/fin()/epoch_thread()/gc_thread() bodies are executed symbolically from an ARBITRARY residue of earlier cycles (stop flags, epoch, '
                     'slot flags symbolic), so one discharged query covers any number of repetitions; a concrete two-cycle run with sessions left open is added.',
                note='Background threads are modelled by running their real bodies on the calling thread (join = run to completion); std::thread start/join stubbed; '
                     'storages empty in these harnesses (destroy() with content is under C11/C13). Trusted: clang++-14, ll2c, CBMC+kissat.', ref='DESIGN.md 4/C16'),
    'C02': dict(text='One real put/get/remove call is executed symbolically from an ARBITRARY valid state of each shape in the catalogue '
                     '(contents, operation key/value/flags and a probe key symbolic; topology, entry counts and slot assignment concrete per query) and the '
                     'status, the representation invariant of the post-state and the real get of the probe key are compared with the reference ordered map. '
                     'Because the pre-state is any valid state of the shape, one discharged step covers operation histories of any length that stay inside the shape family.',
                note='Bounds: shapes T0, T0d, T1(1..4), T1(15)+split (structure, separator, links, C12 reporting; also with a next-layer link as 9th entry); keys of 0..8 bytes (one layer); values 1 byte. The real get of a probe key on the split tree is not decided (no verdict in 3400 s). Version counters concrete '
                     '(all counter values are covered at kind K, C17). Trusted: clang++-14, ll2c (cross-validated on solver witnesses against the g++ build), CBMC+kissat.',
                ref='DESIGN.md 4/C02'),
    'C08': dict(text='RI(post) - sortedness/uniqueness of entries, separator bounds, parent/child and prev/next consistency, no lock or dirty bit left, no unlinked '
                     'node reachable - and get(probe)==reference are asserted after every symbolic put/remove step from an arbitrary valid state of the shape.',
                note='Same bounds and trusted base as C02; additionally the real scan is compared with the entry enumeration on T1(2) and T3(2;1,1) (scan and get agree with the same reference map). '
                     'The concurrent half: the quiescent state of every two-switch get||remove schedule is checked against RI under C01.', ref='DESIGN.md 4/C08'),
    'C12': dict(text='For every symbolic put from an arbitrary valid state of the shape the reported modified/created node-version pointers and the stable versions '
                     'of all border nodes before/after are compared: insert changes exactly the reported nodes, overwrite and rejected unique-insert change none.',
                note='Same bounds and trusted base as C02.', ref='DESIGN.md 4/C12'),
    'C17': dict(text='The version-word protocol is decided for ALL 2^64 words through the public operations of the real node_version64 '
                     '(unlock, lock, every atomic_set_*, atomic_inc_vinsert, get_stable_version): exact field effects incl. the 2^29 wrap, '
                     'one CAS per mutator. The concurrent half (mutual exclusion, stable-version argument under interleavings) is decided by '
                     'the sequentialized-schedule harnesses where registered.',
                note='Trusted: clang++-14, ll2c (cross-validated on solver witnesses against the g++ build), CBMC+kissat. '
                     'compare_exchange_weak modelled as strong; SC at hook granularity.', ref='DESIGN.md 4/C17', sched=True),
    'C18': dict(text='Each comparison site is decided against ONE reference order (bytewise lexicographic, proper prefix first) on all valid '
                     '(slice,length) tuples - pairs for agreement/totality, triples for transitivity - by bit-precise symbolic execution of the real code.',
                note='Trusted: clang++-14, ll2c, CBMC+kissat. Valid tuple = len 0..9 with zero padding above len (the representation invariant of node keys).',
                ref='DESIGN.md 4/C18'),
    'C15': dict(text='Value round-trip is decided symbolically on the real value/link_or_value code: all lengths 0..12 with symbolic bytes and '
                     'alignments 1..32 through the real allocation path, all lengths to 8 MiB / alignments to 4096 for the header arithmetic, '
                     'every 62-bit inline word. Sized/aligned delete is checked against the allocation by a ghost allocator.',
                note='Trusted: clang++-14, ll2c, CBMC+kissat. operator new(align) is assumed to return align-aligned memory (allocator contract); '
                     'inline values with bit 62/63 set are outside the documented domain.', ref='DESIGN.md 4/C15', sched=True),
    'C19': dict(text='Every statement about the permutation word is decided for ALL 64-bit words that encode a valid ordering, all counts 0..15 and '
                     'all ranks by bit-precise symbolic execution of the real permutation members (no sampling); the loops have at most 15 iterations '
                     'and are fully unwound, so inside this unit the bound loses nothing.',
                note='Trusted: clang++-14 front end, ll2c translation (cross-validated on solver witnesses against the g++ build), CBMC+kissat. '
                     'Pigeonhole for get_empty_slot is supplied as a witness variable.', ref='DESIGN.md 4/C19'),
}

_SCAN = ('scan/iscan build their results in std::string / std::vector<std::tuple<std::string,...>> / std::deque objects that live in untyped heap blocks; '
         'with every external stubbed and SSO-only strings, CBMC symex of the real scan on the smallest shape T1(2) still does not finish in 10 minutes '
         '(measured, DESIGN.md 10.2), so no sound bounded verdict is available with this technique')
_TREE_S = ('needs a sequentialized schedule over whole tree operations: the kind-S encoding exists (harness/s_point.cpp, nested coroutines) but symex of get||remove on T1(2) '
           'alone does not finish in the budget once the version word flows through symbolic contexts (DESIGN.md 10.2); the lock/session/epoch protocols it builds on are decided under C17, C14, C07')
NOT_APPLICABLE = {
    'C04': 'concurrent scan: the only schedule encoding that finishes for tree operations (intruder mode, two context switches, DESIGN.md 11) costs 400-700 k SSA steps per hook site for get||remove; '
           'with scan as the pre-empted operation (std::string/vector state carried across the switch) no window finished in 1500 s, and the free-schedule sequentialization does not finish even for get||remove',
    'C06': 'same as C04 (scan with node_version_vec concurrent with an insert); the sequential half (a later insert invalidates the collected set) is decided under C05',
    'C10': 'the cursor code (iscan_findfirst/iscan_findnext: a goto-structured state machine with ~15 retry back edges, std::deque stack, std::function callback) does not finish symbolic execution in 600 s '
           'even for the smallest run (one entry, full interval: harness/n_iscan.cpp H_iscan_min, ~450 instructions/s); typed deque nodes, a heap-capable std::string model and extra RETRY hooks were added and did not change that',
}
