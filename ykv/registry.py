"""Which harness decides which property (DESIGN.md section 4).  tier: 'quick' harnesses run in both tiers."""

UNITS = {
    'k_perm': dict(cpp='harness/k_perm.cpp', all_hooks=True),
    'k_version': dict(cpp='harness/k_version.cpp', all_hooks=True),
    'k_compare': dict(cpp='harness/k_compare.cpp'),
    'n_t1': dict(cpp='harness/n_t1.cpp', cdefs=('YK_VAL_CAP=16',)),
    'k_value': dict(cpp='harness/k_value.cpp', cdefs=('YK_VAL_CAP=48',)),
}


def H(unit, fn, what, bounds, tier='quick', **kw):
    d = dict(unit=unit, fn=fn, what=what, bounds=bounds, tier=tier)
    d.update(kw)
    return d


FULL64 = 'full 64-bit word, all counts 0..15, all ranks; slot loops (15) fully unwound'

W64 = 'every 64-bit version word (all flag combinations, both 29-bit counters incl. wrap-around)'

TUP = 'all valid (slice,len) tuples: len 0..9, arbitrary bytes incl. 0x00/0xFF, zero padding above len'

REGISTRY = {
    'C15': [
        H('k_value', 'H_val_create_roundtrip', 'value::create_value<false> -> get_body/get_len/get_gc_info/need_delete/delete_value + link_or_value::set_value', 'v_len 0..12 symbolic bytes, align 1..32'),
        H('k_value', 'H_val_inline', 'create_value<true> / link_or_value with pointer-typed values', 'every 62-bit word'),
        H('k_value', 'H_val_header_arith', 'header arithmetic of value for the documented range', 'v_len 0..8 MiB, align 1..4096'),
    ],
    'C18': [
        H('k_compare', 'H_cmp_tuple_pair', 'key_tuple operator< > <= >= == != vs bytewise lexicographic reference (all pairs)', TUP),
        H('k_compare', 'H_cmp_tuple_triple', 'transitivity on all triples; min()/max() sentinels', TUP),
        H('k_compare', 'H_cmp_tuple_from_view', 'key_tuple(string_view): slice/len of the first layer, keys of 0..10 bytes', 'all byte strings of length 0..10'),
    ],
    'C17': [
        H('k_version', 'H_ver_layout', 'the 8 public getters partition the 64-bit word; operator== is word equality', W64),
        H('k_version', 'H_ver_unlock', 'node_version64::unlock vs the protocol, one CAS', W64),
        H('k_version', 'H_ver_setters', 'atomic_set_{border,deleted,inserting_deleting,root,splitting}, atomic_inc_vinsert, lock: exactly their own field, one CAS', W64),
        H('k_version', 'H_ver_stable', 'get_stable_version returns the word itself, only when clean', W64),
        H('k_version', 'H_ver_stable_dirty_waits', 'exit test of get_stable_version is false on every locked/dirty word', W64),
        H('k_version', 'H_ver_lock_cycle', 'lock; flag; unlock: stable versions equal iff nothing flagged', W64),
    ],
    'C19': [
        H('k_perm', 'H_perm_insert', 'permutation::insert_rank + get_cnk/get_index_of_rank/get_lowest_key_pos vs positional spec', FULL64),
        H('k_perm', 'H_perm_delete', 'permutation::delete_rank vs positional spec', FULL64),
        H('k_perm', 'H_perm_empty', 'permutation::get_empty_slot returns a slot not in use; its LOG(ERROR) site unreachable', FULL64,
          assumes='pigeonhole (15 slot numbers, <15 in use => one free) is supplied as a witness variable, not derived by the solver'),
        H('k_perm', 'H_perm_split_dest', 'permutation::split_dest(num) = identity on 0..num-1', 'num 0..15'),
        H('k_perm', 'H_perm_set_cnk_init', 'permutation::set_cnk / init', 'full 64-bit word'),
    ],
}

LEVEL_TEXT = {
    'C17': dict(text='The version-word protocol is decided for ALL 2^64 words through the public operations of the real node_version64 '
                     '(unlock, lock, every atomic_set_*, atomic_inc_vinsert, get_stable_version): exact field effects incl. the 2^29 wrap, '
                     'one CAS per mutator. The concurrent half (mutual exclusion, stable-version argument under interleavings) is decided by '
                     'the sequentialized-schedule harnesses where registered.',
                note='Trusted: clang++-14, ll2c (cross-validated on solver witnesses against the g++ build), CBMC+kissat. '
                     'compare_exchange_weak modelled as strong; SC at hook granularity.', ref='DESIGN.md 4/C17', sched=True),
    'C18': dict(text='Each comparison site is decided against ONE reference order (bytewise lexicographic, proper prefix first) on all valid '
                     '(slice,length) tuples - pairs for agreement/totality, triples for transitivity - by bit-precise symbolic execution of the real code.',
                note='Trusted: clang++-14, ll2c, CBMC+kissat. Valid tuple = len 0..9 with zero padding above len (the representation invariant of node keys).',
                ref='DESIGN.md 4/C18'),
    'C15': dict(text='Value round-trip is decided symbolically on the real value/link_or_value code: all lengths 0..12 with symbolic bytes and '
                     'alignments 1..32 through the real allocation path, all lengths to 8 MiB / alignments to 4096 for the header arithmetic, '
                     'every 62-bit inline word. Sized/aligned delete is checked against the allocation by a ghost allocator.',
                note='Trusted: clang++-14, ll2c, CBMC+kissat. operator new(align) is assumed to return align-aligned memory (allocator contract); '
                     'inline values with bit 62/63 set are outside the documented domain.', ref='DESIGN.md 4/C15', sched=True),
    'C19': dict(text='Every statement about the permutation word is decided for ALL 64-bit words that encode a valid ordering, all counts 0..15 and '
                     'all ranks by bit-precise symbolic execution of the real permutation members (no sampling); the loops have at most 15 iterations '
                     'and are fully unwound, so inside this unit the bound loses nothing.',
                note='Trusted: clang++-14 front end, ll2c translation (cross-validated on solver witnesses against the g++ build), CBMC+kissat. '
                     'Pigeonhole for get_empty_slot is supplied as a witness variable.', ref='DESIGN.md 4/C19'),
}

_PENDING = 'check under construction in this round (see DESIGN.md section 8 for the order of work); not claimed yet'
NOT_APPLICABLE = {('C%02d' % i): _PENDING for i in range(1, 21)}
