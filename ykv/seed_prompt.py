#!/usr/bin/env python3
"""Print the prompt given to a mutation-seeding sub-agent for property <id> (only the property text + a worktree)."""
import json, sys
pid = sys.argv[1]
for l in open('/verif/properties.jsonl'):
    p = json.loads(l)
    if p['id'] == pid: break
wt = '/tmp/seed-%s' % pid
print(f"""You are helping to test a verification effort for the C++ header-only library project-tsurugi/yakushima
(a Masstree-based concurrent in-memory key-value tree). You get your own scratch git worktree of the library at
{wt} (library headers in {wt}/include, tests in {wt}/test). Work ONLY inside {wt} and {wt}-out . Never touch or read
/repo or /verif.

The semantic property under study:

  id: {p['id']}
  title: {p['title']}
  statement: {p['statement']}
  quantified over: {p['quantifier']['text']}
  anchored in: {', '.join(p['anchors'].get('files', []))}

TASK: produce ONE small, realistic change to the library headers under {wt}/include (the kind of slip a maintainer
could make in a refactor or optimisation: an off-by-one, a dropped re-check, a wrong comparison at a boundary, a
missing version bump, a reordered store, a lost flag reset ...) that BREAKS this property, while the library still
compiles and the existing test suite still passes. The change must NOT be exposed by ordinary use at once: it should
need something specific to manifest - a particular interleaving, a multi-step sequence of operations, an unusual input
(boundary length, special byte values, full node, ...), or two cooperating sites that each look fine alone.
Do not add new files to include/, do not change tests, do not touch anything but existing headers in include/.
Keep the diff small (ideally < 15 changed lines).

Then write a DEMONSTRATION: a small standalone C++ program {wt}-out/demo.cpp (own main(); exit code 0 = property
holds, non-zero = property violated, printing what went wrong) that uses only the library's public/internal headers,
FAILS with your change and PASSES on the unmodified library. Deterministic demos are strongly preferred; if the breakage
needs a thread interleaving, the demo may be a stress loop as long as it fails with the change in (nearly) every run
within 60 s and never fails without the change (run it several times both ways).

How to build things:
  * single program:  g++ -std=c++17 -O2 -g -DNDEBUG -DYAKUSHIMA_EPOCH_TIME=40 -DYAKUSHIMA_MAX_PARALLEL_SESSIONS=8 -DYAKUSHIMA_LINUX
        -I{wt}/include -I{wt}/test/include demo.cpp -o demo -lglog -ltbb -lpthread
    (most tests do init() ... fin(); look at {wt}/test/*.cpp and {wt}/test/*/ for API usage; #include "kvs.h")
  * whole suite (takes a few minutes to build, well under a minute to run; the googletest sources come from /usr/src/googletest; -DBUILD_STRICT=OFF avoids a pre-existing -Werror failure in one test file):
        cd {wt} && mkdir -p third_party/googletest && cp -r /usr/src/googletest/. third_party/googletest/ 2>/dev/null; cmake -G Ninja -B _build -DCMAKE_BUILD_TYPE=RelWithDebInfo -DBUILD_STRICT=OFF -DCMAKE_CXX_FLAGS=-Wno-error . > /dev/null
        && cmake --build _build -j 12 > _build/build.log 2>&1 ; ctest --test-dir _build -j8 --timeout 900 > {wt}-out/ctest.log 2>&1
    All tests must pass except yakushima_test-multi_thread_delete_100k_key_test, which already fails (time-out) on the
    unmodified library and is ignored. The sandbox has no network. If your change makes any other test fail, it is not
    acceptable: pick a subtler change.

Deliverables, all in {wt}-out/ :
  patch.diff   - output of `git -C {wt} diff` (headers only)
  demo.cpp     - the demonstration, plus run.sh with the exact compile+run command
  ctest.log    - the full-suite run with the change applied
  NOTES.md     - 10-20 lines: what the change is, why it breaks the property, exactly what is needed for it to manifest
                 (inputs / sequence / interleaving), why the existing tests do not notice, and the demo's output with and
                 without the change.
Leave your change applied in the worktree when you finish. In your final message, summarise NOTES.md.""")
