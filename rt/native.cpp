// Native personality of the harness API: the SAME harness .cpp is compiled with g++ against the real headers
// and fed the inputs the solver chose (DESIGN 2.8).  usage: native <harness-fn> <inputs-file>
#include <cstdint>
#include <cstdio>
#include <cstdlib>
#include <cstring>
#include <vector>
#include <dlfcn.h>

static std::vector<std::uint64_t> g_in;
static std::size_t g_pos = 0;
static unsigned g_overrun = 0;

static std::uint64_t next_in() {
    if (g_pos < g_in.size()) return g_in[g_pos++];
    ++g_overrun;
    ++g_pos;
    return 0;
}

extern "C" {
std::uint64_t yk_nondet_u64(void) { return next_in(); }
std::uint32_t yk_nondet_u32(void) { return static_cast<std::uint32_t>(next_in()); }
std::uint8_t yk_nondet_u8(void) { return static_cast<std::uint8_t>(next_in()); }
std::uint8_t yk_nondet_bool(void) { return static_cast<std::uint8_t>(next_in() & 1U); }
void yk_assume(bool c) {
    if (!c) {
        std::printf("ASSUME-FAIL after %zu inputs\n", g_pos);
        std::fflush(stdout);
        std::_Exit(3);
    }
}
void yk_assert_at(bool c, std::uint32_t line) {
    if (!c) {
        std::printf("ASSERT-FAIL yk:%u\n", line);
        std::fflush(stdout);
        std::_Exit(1);
    }
}
void yk_on_sleep(unsigned n) __attribute__((weak));
static unsigned g_sleeps = 0;
extern "C" void yk_native_sched_add(unsigned t, unsigned len, unsigned fin);
static void yk_gate(int kind);
static const void* g_watch = nullptr;
static std::uint32_t g_wst = 0, g_wld = 0;
void yk_watch(const void* p) { g_watch = p; g_wst = 0; g_wld = 0; }
std::uint32_t yk_watch_store_count(void) { return g_wst; }
std::uint32_t yk_watch_load_count(void) { return g_wld; }
// intruder mode replay: the other thread's whole operation runs inside the g_fire_at-th LOAD/STORE hook of the caller
static void (*g_intruder)() = nullptr;
static unsigned g_fire_at = 0, g_hookno = 0, g_fired = 0;
void yk_intruder(void (*fn)()) { g_intruder = fn; }
std::uint32_t yk_intruder_state(void) { return g_fired; }
void yakushima_verif_hook(int kind, const void* addr) {
    if ((kind == 0 || kind == 1) && g_fired == 0 && g_intruder != nullptr) {
        ++g_hookno;
        if (g_fire_at != 0 && g_hookno == g_fire_at) {
            g_fired = 1;
            g_intruder();
            g_fired = 2;
        }
    }
    if (addr != nullptr && addr == g_watch) {
        if (kind == 1) ++g_wst;
        else if (kind == 0) ++g_wld;
    }
    if (kind == 4) {
        ++g_sleeps;
        if (yk_on_sleep != nullptr) yk_on_sleep(g_sleeps);
    }
    yk_gate(kind);
}
struct ev_rec { std::uint32_t kind; const void* ptr; std::uint64_t tag; };
static ev_rec g_ev[64];
static std::uint32_t g_nev = 0;
void yakushima_verif_event(int ev, const void* p, unsigned long tag) {
    if (g_nev < 64) g_ev[g_nev] = ev_rec{static_cast<std::uint32_t>(ev), p, tag};
    ++g_nev;
}
std::uint32_t yk_event_count(void) { return g_nev; }
std::uint32_t yk_event_kind(std::uint32_t i) { return i < 64 ? g_ev[i].kind : 99; }
const void* yk_event_ptr(std::uint32_t i) { return i < 64 ? g_ev[i].ptr : nullptr; }
std::uint64_t yk_event_tag(std::uint32_t i) { return i < 64 ? g_ev[i].tag : 0; }
void yk_event_reset(void) { g_nev = 0; }
std::int64_t yk_live_allocs(void);
int yk_is_live(const void* p);
void yk_stop(void) {
    std::printf("DONE (yk_stop) inputs_used=%zu\n", g_pos);
    std::fflush(stdout);
    std::_Exit(0);
}
void yk_layers_reset(void) {}
void yk_reach_at(std::uint32_t line) {
    if (line >= 100000) std::printf("REACH reach:%u@%u\n", line % 100000, line / 100000);
    else std::printf("REACH reach:%u\n", line);
}
}

// ---- allocation accounting: every operator new/delete variant of the program under test goes through here
#include <new>
#include <atomic>
namespace {
std::int64_t g_live = 0;
bool g_track = false;
constexpr unsigned LIVE_N = 1u << 14;
const void* g_live_tab[LIVE_N];
std::atomic_flag g_live_lock = ATOMIC_FLAG_INIT;
void live_set(const void* p, bool on) {
    while (g_live_lock.test_and_set(std::memory_order_acquire)) {}
    unsigned h = (unsigned) ((reinterpret_cast<std::uintptr_t>(p) >> 4) * 2654435761u) % LIVE_N;
    for (unsigned k = 0; k < LIVE_N; ++k) {
        unsigned i = (h + k) % LIVE_N;
        if (on) {
            if (g_live_tab[i] == nullptr || g_live_tab[i] == reinterpret_cast<const void*>(1)) { g_live_tab[i] = p; break; }
        } else if (g_live_tab[i] == p) {
            g_live_tab[i] = reinterpret_cast<const void*>(1); // tombstone
            break;
        } else if (g_live_tab[i] == nullptr) {
            break;
        }
    }
    g_live_lock.clear(std::memory_order_release);
}
bool live_has(const void* p) {
    while (g_live_lock.test_and_set(std::memory_order_acquire)) {}
    bool r = false;
    unsigned h = (unsigned) ((reinterpret_cast<std::uintptr_t>(p) >> 4) * 2654435761u) % LIVE_N;
    for (unsigned k = 0; k < LIVE_N; ++k) {
        unsigned i = (h + k) % LIVE_N;
        if (g_live_tab[i] == p) { r = true; break; }
        if (g_live_tab[i] == nullptr) break;
    }
    g_live_lock.clear(std::memory_order_release);
    return r;
}
void* yk_alloc(std::size_t n, std::size_t al) {
    void* p = nullptr;
    if (al < sizeof(void*)) al = sizeof(void*);
    if (posix_memalign(&p, al, n == 0 ? 1 : n) != 0) std::abort();
    if (g_track) { __atomic_add_fetch(&g_live, 1, __ATOMIC_SEQ_CST); live_set(p, true); }
    return p;
}
void yk_free(void* p) {
    if (p == nullptr) return;
    if (g_track) { __atomic_sub_fetch(&g_live, 1, __ATOMIC_SEQ_CST); live_set(p, false); return; } // replay: keep the block mapped, so that a use-after-release is observed, not a crash
    std::free(p);
}
} // namespace
void* operator new(std::size_t n) { return yk_alloc(n, 16); }
void* operator new[](std::size_t n) { return yk_alloc(n, 16); }
void* operator new(std::size_t n, std::align_val_t a) { return yk_alloc(n, static_cast<std::size_t>(a)); }
void* operator new[](std::size_t n, std::align_val_t a) { return yk_alloc(n, static_cast<std::size_t>(a)); }
void operator delete(void* p) noexcept { yk_free(p); }
void operator delete[](void* p) noexcept { yk_free(p); }
void operator delete(void* p, std::size_t) noexcept { yk_free(p); }
void operator delete[](void* p, std::size_t) noexcept { yk_free(p); }
void operator delete(void* p, std::align_val_t) noexcept { yk_free(p); }
void operator delete[](void* p, std::align_val_t) noexcept { yk_free(p); }
void operator delete(void* p, std::size_t, std::align_val_t) noexcept { yk_free(p); }
void operator delete[](void* p, std::size_t, std::align_val_t) noexcept { yk_free(p); }
extern "C" std::int64_t yk_live_allocs(void) { return g_live; }
extern "C" int yk_is_live(const void* p) { return live_has(p) ? 1 : 0; }

// ---- kind S replay: the thread entries run in REAL threads; every guarded hook is a gate that follows the schedule
// the solver found (thread per context, number of hooks passed in the context, whether the thread finished in it).
#include <pthread.h>
#include <condition_variable>
#include <mutex>
namespace {
struct ctx_rec { unsigned t, len, fin; };
std::vector<ctx_rec> g_sched;
void (*g_thr_fn[8])() = {};
unsigned g_nthr = 0;
std::mutex g_mu;
std::condition_variable g_cv;
std::size_t g_ctx = 0;          // current context index
unsigned g_left = 0;            // hooks left in the current context
bool g_thr_done[8] = {};
bool g_free_run = false;        // schedule exhausted: remaining threads run freely (recorded as a divergence)
thread_local int tl_me = -1;
unsigned g_fin_ctx[8] = {};
unsigned g_start_ctx[8] = {};

bool my_turn(int me) { return g_free_run || (g_ctx < g_sched.size() && (int) g_sched[g_ctx].t == me); }
void next_ctx_locked() {
    ++g_ctx;
    // skip contexts of threads that already finished (cannot happen for a faithful schedule)
    while (g_ctx < g_sched.size() && g_thr_done[g_sched[g_ctx].t]) ++g_ctx;
    if (g_ctx >= g_sched.size()) g_free_run = true;
    else g_left = g_sched[g_ctx].len;
    g_cv.notify_all();
}
void* thr_main(void* arg) {
    int me = (int) (long) arg;
    tl_me = me;
    {
        std::unique_lock<std::mutex> lk(g_mu);
        g_cv.wait(lk, [me] { return my_turn(me); });
        g_start_ctx[me] = (unsigned) g_ctx;
    }
    g_thr_fn[me]();
    {
        std::unique_lock<std::mutex> lk(g_mu);
        g_thr_done[me] = true;
        g_fin_ctx[me] = (unsigned) g_ctx;
        if (!g_free_run) next_ctx_locked();
        else g_cv.notify_all();
    }
    return nullptr;
}
void sched_gate(int kind) {
    int me = tl_me;
    if (me < 0 || g_free_run) {
        if (me >= 0 && (kind == 2 || kind == 3 || kind == 4)) sched_yield();
        return;
    }
    std::unique_lock<std::mutex> lk(g_mu);
    if (g_ctx >= g_sched.size() || (int) g_sched[g_ctx].t != me) return; // divergence: not gated any more
    if (g_left > 0) --g_left;
    if (g_left == 0 && g_sched[g_ctx].fin == 2) {   // parked for good at this hook (bound on background periods)
        g_thr_done[me] = true;
        g_fin_ctx[me] = (unsigned) g_ctx;
        next_ctx_locked();
        lk.unlock();
        pthread_exit(nullptr);
    }
    if (g_left == 0 && !g_sched[g_ctx].fin) {
        next_ctx_locked();
        g_cv.wait(lk, [me] { return my_turn(me); });
    }
}
} // namespace
extern "C" void yk_native_sched_add(unsigned t, unsigned len, unsigned fin) { g_sched.push_back(ctx_rec{t, len, fin}); }
extern "C" void yk_thread(std::uint32_t i, void (*fn)()) {
    if (i < 8) {
        g_thr_fn[i] = fn;
        if (i + 1 > g_nthr) g_nthr = i + 1;
    }
}
extern "C" void yk_allow_ctx(std::uint32_t, std::uint32_t) {}
extern "C" std::uint32_t yk_thread_done(std::uint32_t i) { return i < 8 && g_thr_done[i] ? 1 : 0; }
extern "C" std::uint32_t yk_ctx_of_finish(std::uint32_t i) { return i < 8 ? g_fin_ctx[i] : 0; }
extern "C" std::uint32_t yk_ctx_of_start(std::uint32_t i) { return i < 8 ? g_start_ctx[i] : 0; }
extern "C" void yk_run_threads(std::uint32_t) {
    pthread_t th[8];
    g_ctx = 0;
    g_free_run = g_sched.empty();
    if (!g_sched.empty()) g_left = g_sched[0].len;
    for (unsigned i = 0; i < g_nthr; ++i) pthread_create(&th[i], nullptr, thr_main, (void*) (long) i);
    for (unsigned i = 0; i < g_nthr; ++i) pthread_join(th[i], nullptr);
    g_free_run = false;
}

// ---- thread model of the symbolic runs, natively: std::thread start records the thread, join() runs its body to
// completion on the joining thread (DESIGN 2.3).  The definitions below interpose libstdc++'s exported members, so the
// replay of a kind-N counterexample is single-threaded and deterministic, exactly as CBMC explored it.
#include <thread>
namespace {
std::thread::_State* g_states[16];
unsigned g_nthreads = 0;
} // namespace
namespace std {
void thread::_M_start_thread(_State_ptr state, void (*)()) {
    g_states[g_nthreads % 16] = state.release();
    ++g_nthreads;
    _M_id = id(static_cast<native_handle_type>(g_nthreads));
}
void thread::join() {
    auto h = static_cast<unsigned long>(native_handle());
    if (h == 0 || h > g_nthreads) std::abort();
    _State* st = g_states[(h - 1) % 16];
    st->_M_run();
    delete st;
    _M_id = id();
}
} // namespace std

static void yk_gate(int kind) { sched_gate(kind); }

int main(int argc, char** argv) {
    if (argc < 3) {
        std::fprintf(stderr, "usage: %s <harness> <inputs-file>\n", argv[0]);
        return 2;
    }
    FILE* f = std::fopen(argv[2], "r");
    if (f == nullptr) return 2;
    char tag[8];
    while (std::fscanf(f, "%7s", tag) == 1) {
        if (tag[0] == 'I') {
            unsigned long long v = 0;
            if (std::fscanf(f, "%llu", &v) != 1) break;
            g_in.push_back(v);
        } else if (tag[0] == 'F') {
            unsigned a = 0, b = 0, c = 0;
            if (std::fscanf(f, "%u %u %u", &a, &b, &c) != 3) break;
            g_fire_at = a;
        } else if (tag[0] == 'S') {
            unsigned t = 0, len = 0, fin = 0;
            if (std::fscanf(f, "%u %u %u", &t, &len, &fin) != 3) break;
            yk_native_sched_add(t, len, fin);
        } else {
            break;
        }
    }
    std::fclose(f);
    void* sym = dlsym(RTLD_DEFAULT, argv[1]);
    if (sym == nullptr) {
        std::fprintf(stderr, "no harness %s\n", argv[1]);
        return 2;
    }
    g_track = true;
    reinterpret_cast<void (*)()>(sym)();
    g_track = false;
    std::printf("DONE inputs_used=%zu overrun=%u\n", g_pos, g_overrun);
    std::fflush(stdout);
    std::_Exit(0); // no static destructors: a harness may legitimately end with the background threads still "running"
}
