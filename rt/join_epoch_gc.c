/* thread model for the init()/fin() harnesses (DESIGN 2.3): std::thread::_M_start_thread records the thread (ids in
 * start order: 1 = epoch thread, 2 = gc thread); join() runs the REAL thread body (translated from the IR) to
 * completion on the joining thread - sequentially consistent "the thread finishes after fin() set its stop flag". */
#include "rt.h"
void f__ZN9yakushima13epoch_manager12epoch_threadEv(void);
void f__ZN9yakushima13epoch_manager9gc_threadEv(void);
uint32_t yk_joined;
void yk_thread_join(void* thr)
{
    uint64_t id = *(uint64_t*)thr;
    YK_ASSERT(id >= 1 && id <= yk_threads_started, "fault: join of a thread that was not started by init()");
    if (id % 2 == 1) f__ZN9yakushima13epoch_manager12epoch_threadEv();   /* init() starts the epoch thread first */
    else f__ZN9yakushima13epoch_manager9gc_threadEv();
    yk_delete(yk_thread_fn[(id - 1) % 4], 0, 0, 0);                      /* the finished thread releases its state */
    *(uint64_t*)thr = 0;
    yk_joined++;
}
