/* Runtime for the C that ll2c generates (DESIGN.md 2.3).  Two personalities:
 *   __CPROVER__  : bodies for every external, written for CBMC (nondet, assume, assert)
 *   native       : the same entry points for the gcc-built twin used by translator validation
 * Everything here is part of the claim (stubs/assumptions are listed in the evidence). */
#ifndef YK_RT_H
#define YK_RT_H
#include <stdint.h>
#include <stddef.h>
#include <string.h>
#include <stdlib.h>

#ifndef YK_VAL_CAP
#define YK_VAL_CAP 48      /* capacity of a value block (header + alignment pad + body); larger is an assertion failure */
#endif
#ifndef YK_NIN
#define YK_NIN 96
#endif

#ifdef YK_CBMC
uint64_t nondet_uint64(void);
uint8_t nondet_uint8(void);
#define YK_ASSERT(c, msg) __CPROVER_assert(c, msg)
#define YK_ASSUME(c) __CPROVER_assume(c)
#else
#include <stdio.h>
#define __CPROVER_assert(c, msg) do { if (!(c)) yk_native_fail(msg); } while (0)
#define __CPROVER_assume(c) do { if (!(c)) yk_native_assume_fail(); } while (0)
#define YK_ASSERT(c, msg) __CPROVER_assert(c, msg)
#define YK_ASSUME(c) __CPROVER_assume(c)
void yk_native_fail(const char* msg);
void yk_native_assume_fail(void);
uint64_t yk_native_nondet(void);
#define nondet_uint64() yk_native_nondet()
#define nondet_uint8() ((uint8_t)yk_native_nondet())
#endif

/* ---- recorded nondeterministic inputs (replay reads them back from the trace) */
extern uint64_t yk_in[YK_NIN];
extern uint32_t yk_nin;
extern uint32_t yk_last_note;
static inline uint64_t yk_rec(uint64_t v) { if (yk_nin < YK_NIN) yk_in[yk_nin] = v; yk_nin++; return v; }
static inline uint64_t yk_nondet_u64(void) { return yk_rec(nondet_uint64()); }
static inline uint32_t yk_nondet_u32(void) { return (uint32_t)yk_rec(nondet_uint64() & 0xffffffffULL); }
static inline uint8_t yk_nondet_u8(void) { return (uint8_t)yk_rec(nondet_uint8()); }
static inline uint8_t yk_nondet_bool(void) { return (uint8_t)yk_rec(nondet_uint8() & 1); }
static inline void yk_assume(uint8_t c) { YK_ASSUME(c & 1); }
static inline void yk_note(uint32_t line) { yk_last_note = line; }

/* ---- poison / total arithmetic (LLVM speculates shifts past their guards: oversize shift = poison, not UB) */
static inline uint64_t yk_poison(void) { return nondet_uint64(); }
static inline uint64_t yk_shl64(uint64_t a, uint64_t b) { return b < 64 ? a << b : yk_poison(); }
static inline uint64_t yk_lshr64(uint64_t a, uint64_t b) { return b < 64 ? a >> b : yk_poison(); }
static inline uint32_t yk_shl32(uint32_t a, uint32_t b) { return b < 32 ? a << b : (uint32_t)yk_poison(); }
static inline uint32_t yk_lshr32(uint32_t a, uint32_t b) { return b < 32 ? a >> b : (uint32_t)yk_poison(); }
static inline uint16_t yk_shl16(uint16_t a, uint16_t b) { return b < 16 ? (uint16_t)((uint32_t)a << b) : (uint16_t)yk_poison(); }
static inline uint16_t yk_lshr16(uint16_t a, uint16_t b) { return b < 16 ? (uint16_t)(a >> b) : (uint16_t)yk_poison(); }
static inline uint8_t yk_shl8(uint8_t a, uint8_t b) { return b < 8 ? (uint8_t)((uint32_t)a << b) : (uint8_t)yk_poison(); }
static inline uint8_t yk_lshr8(uint8_t a, uint8_t b) { return b < 8 ? (uint8_t)(a >> b) : (uint8_t)yk_poison(); }
static inline uint64_t yk_ashr64(uint64_t a, uint64_t b) { return b < 64 ? (uint64_t)((int64_t)a >> b) : yk_poison(); }
static inline uint32_t yk_ashr32(uint32_t a, uint32_t b) { return b < 32 ? (uint32_t)((int32_t)a >> b) : (uint32_t)yk_poison(); }
static inline uint64_t yk_udiv(uint64_t a, uint64_t b) { YK_ASSERT(b != 0, "fault: division by zero"); return b ? a / b : 0; }
static inline uint64_t yk_urem(uint64_t a, uint64_t b) { YK_ASSERT(b != 0, "fault: division by zero"); return b ? a % b : 0; }
static inline uint64_t yk_sdiv64(uint64_t a, uint64_t b) { YK_ASSERT(b != 0, "fault: division by zero"); return b ? (uint64_t)((int64_t)a / (int64_t)b) : 0; }
static inline uint64_t yk_srem64(uint64_t a, uint64_t b) { YK_ASSERT(b != 0, "fault: division by zero"); return b ? (uint64_t)((int64_t)a % (int64_t)b) : 0; }
static inline uint32_t yk_sdiv32(uint32_t a, uint32_t b) { YK_ASSERT(b != 0, "fault: division by zero"); return b ? (uint32_t)((int32_t)a / (int32_t)b) : 0; }
static inline uint32_t yk_srem32(uint32_t a, uint32_t b) { YK_ASSERT(b != 0, "fault: division by zero"); return b ? (uint32_t)((int32_t)a % (int32_t)b) : 0; }
static inline uint64_t yk_ctlz64(uint64_t a) { uint64_t n = 0; for (int i = 63; i >= 0; i--) { if ((a >> i) & 1) break; n++; } return n; }
static inline uint64_t yk_cttz64(uint64_t a) { uint64_t n = 0; for (int i = 0; i < 64; i++) { if ((a >> i) & 1) break; n++; } return n; }
static inline uint64_t yk_fshl64(uint64_t a, uint64_t b, uint64_t c) { c &= 63; return c ? (a << c) | (b >> (64 - c)) : a; }

/* ---- faults: anything the real program would crash / throw / log-as-error on */
extern uint32_t yk_logged_errors;
extern const char* yk_log_file;
extern uint32_t yk_log_line;
extern uint32_t yk_log_allow_line;   /* harness may declare ONE LOG(ERROR) site (file line) as proven-unreachable elsewhere */
static inline void yk_fault(const char* what) { (void)what; YK_ASSERT(0, "fault: throw/terminate/trap reached"); YK_ASSUME(0); }
/* conditional fault without a branch: `if (c) throw ...;` of the real code */
static inline void yk_fault_if(uint8_t c) { YK_ASSERT(!c, "fault: throw/terminate/trap reached"); YK_ASSUME(!c); }
static inline void yk_unreachable(void) { YK_ASSERT(0, "fault: llvm unreachable reached"); YK_ASSUME(0); }
/* std::string members that allocate/grow: only reachable from LOG message formatting in the units verified so far */
static inline void yk_string_unmodelled(void) { YK_ASSERT(0, "bound: std::string growth path reached (not modelled in this unit)"); YK_ASSUME(0); }
/* glog severities: INFO 0, WARNING 1, ERROR 2, FATAL 3.  LOG(ERROR) sites are "programming error / unreachable
 * path" markers in yakushima: reaching one is an assertion failure in every harness. */
static inline void yk_log(const char* file, uint32_t line, uint32_t sev)
{
    if (sev >= 2) {
        yk_log_file = file; yk_log_line = line;
        if (line == yk_log_allow_line) { YK_ASSUME(0); }
        yk_logged_errors++;
        YK_ASSERT(0, "fault: LOG(ERROR) site reached");
        YK_ASSUME(0);   /* the run is already a reported violation; message formatting is not explored */
    }
}
extern char yk_ostream[512];
extern uint32_t yk_errno;

/* ---- allocation: malloc/free + ghost table (size, alignment, live).  Allocation never fails (outside the claim).
 * A sized/aligned delete that does not match the allocation, a double free, or a free of a non-heap pointer is an
 * assertion failure. */
#ifndef YK_NALLOC
#define YK_NALLOC 24
#endif
extern int64_t yk_live;            /* live library allocations */
static inline int64_t yk_live_allocs(void);
extern uint64_t yk_news, yk_deletes;
extern void* yk_ap[YK_NALLOC];
extern uint64_t yk_an[YK_NALLOC], yk_aa[YK_NALLOC];
extern uint8_t yk_al[YK_NALLOC];
static inline void yk_track(void* p, uint64_t n, uint64_t al)
{
    YK_ASSERT(yk_news < YK_NALLOC, "bound: more than YK_NALLOC allocations in one harness");
    if (yk_news < YK_NALLOC) { yk_ap[yk_news] = p; yk_an[yk_news] = n; yk_aa[yk_news] = al; yk_al[yk_news] = 1; }
    yk_live++; yk_news++;
}
static inline void yk_new_typed(void* p, uint64_t n, uint64_t al) { YK_ASSUME(p != 0); yk_track(p, n, al); }
#ifndef YK_ARR_CAP
#define YK_ARR_CAP 4       /* element capacity of a typed array obtained through operator new(n * sizeof(T)) (std::vector storage) */
#endif
static inline void yk_new_array(void* p, uint64_t n, uint64_t al, uint64_t cap_bytes)
{
    YK_ASSERT(n <= cap_bytes, "bound: array allocation larger than YK_ARR_CAP elements");
    YK_ASSUME(n <= cap_bytes);
    YK_ASSUME(p != 0);
    yk_track(p, n, al);
}
static inline void* yk_new(uint64_t n, uint64_t al)
{
    YK_ASSERT(n <= YK_VAL_CAP, "bound: untyped allocation larger than YK_VAL_CAP");
    YK_ASSUME(n <= YK_VAL_CAP);
    void* p = malloc(YK_VAL_CAP);
    YK_ASSUME(p != 0);
    yk_track(p, n, al);
    return p;
}
static inline int64_t yk_live_allocs(void) { return yk_live; }
static inline int yk_is_live(const void* p)
{
    for (unsigned i = 0; i < YK_NALLOC; i++) if (i < yk_news && yk_ap[i] == p) return yk_al[i];
    return 0;
}
static inline void yk_delete(void* p, uint64_t n, uint64_t al, int how)
{
    if (p == 0) return;
    int found = 0;
    for (unsigned i = 0; i < YK_NALLOC; i++) {
        if (i < yk_news && yk_ap[i] == p) {
            found = 1;
            YK_ASSERT(yk_al[i], "fault: double free");
            if (how & 1) YK_ASSERT(yk_an[i] == n, "fault: sized delete with a size different from the allocation");
            if (how & 2) YK_ASSERT(yk_aa[i] == al, "fault: aligned delete with an alignment different from the allocation");
            else YK_ASSERT(yk_aa[i] <= 16, "fault: over-aligned block released by a plain delete");
            yk_al[i] = 0;
        }
    }
    YK_ASSERT(found, "fault: delete of a pointer that was not allocated by operator new");
    yk_live--; yk_deletes++;
    if (found) free(p);
}

/* ---- string/memory helpers with explicit small bounds */
#ifndef YK_MEMCMP_CAP
#define YK_MEMCMP_CAP 24
#endif
static inline int32_t yk_memcmp(const uint8_t* a, const uint8_t* b, uint64_t n)
{
    if (n <= 8) {   /* the 8-byte slice compares: loop-free, reads only bytes < n */
        uint64_t x = 0, y = 0;
        if (n > 0) { x |= (uint64_t)a[0] << 56; y |= (uint64_t)b[0] << 56; }
        if (n > 1) { x |= (uint64_t)a[1] << 48; y |= (uint64_t)b[1] << 48; }
        if (n > 2) { x |= (uint64_t)a[2] << 40; y |= (uint64_t)b[2] << 40; }
        if (n > 3) { x |= (uint64_t)a[3] << 32; y |= (uint64_t)b[3] << 32; }
        if (n > 4) { x |= (uint64_t)a[4] << 24; y |= (uint64_t)b[4] << 24; }
        if (n > 5) { x |= (uint64_t)a[5] << 16; y |= (uint64_t)b[5] << 16; }
        if (n > 6) { x |= (uint64_t)a[6] << 8; y |= (uint64_t)b[6] << 8; }
        if (n > 7) { x |= (uint64_t)a[7]; y |= (uint64_t)b[7]; }
        return x < y ? -1 : (x > y ? 1 : 0);
    }
    YK_ASSERT(n <= YK_MEMCMP_CAP, "bound: memcmp longer than YK_MEMCMP_CAP"); YK_ASSUME(n <= YK_MEMCMP_CAP);
    for (unsigned i = 0; i < YK_MEMCMP_CAP; i++) { if (i >= n) break; if (a[i] != b[i]) return a[i] < b[i] ? -1 : 1; }
    return 0;
}
static inline int32_t yk_strcmp(const char* a, const char* b)
{
    for (unsigned i = 0; i < 64; i++) { uint8_t x = (uint8_t)a[i], y = (uint8_t)b[i]; if (x != y) return x < y ? -1 : 1; if (!x) return 0; }
    YK_ASSERT(0, "bound: strcmp longer than 64");
    return 0;
}
static inline uint64_t yk_strlen(const char* a)
{
    for (unsigned i = 0; i < 64; i++) if (!a[i]) return i;
    YK_ASSERT(0, "bound: strlen longer than 64");
    return 0;
}
static inline const uint8_t* yk_memchr(const uint8_t* a, uint32_t c, uint64_t n)
{
    for (uint64_t i = 0; i < n; i++) if (a[i] == (uint8_t)c) return a + i;
    return 0;
}
static inline void yk_memcpy(void* d, const void* s, uint64_t n) { if (n) memcpy(d, s, n); }
static inline void yk_memmove(void* d, const void* s, uint64_t n) { if (n) memmove(d, s, n); }
#ifndef YK_MEMCPY_CAP
#define YK_MEMCPY_CAP 24
#endif
static inline void yk_memcpy_v(void* d, const void* s, uint64_t n)
{
#ifdef YK_MEMCPY_BUILTIN
    /* units whose variable-size copies relocate whole vector elements (std::vector growth in mem_usage): CBMC's own memcpy */
    if (n) memcpy(d, s, n);
    return;
#endif
#ifdef YK_MEMCPY_TI64
    if (n > YK_MEMCPY_CAP) {
        /* a size that is not an IR constant but is one at run time (a tree_instance copied into its value block): plain memcpy.
         * Only in the units that store tree_instance values: the infeasible branch costs every other query dearly. */
        YK_ASSERT(n == 64, "bound: variable-size memcpy larger than YK_MEMCPY_CAP (and not a tree_instance)"); YK_ASSUME(n == 64);
        memcpy(d, s, 64);
        return;
    }
#else
    YK_ASSERT(n <= YK_MEMCPY_CAP, "bound: variable-size memcpy larger than YK_MEMCPY_CAP"); YK_ASSUME(n <= YK_MEMCPY_CAP);
#endif
    for (unsigned i = 0; i < YK_MEMCPY_CAP; i++) if (i < n) ((uint8_t*)d)[i] = ((const uint8_t*)s)[i];
}
static inline void yk_memmove_v(void* d, const void* s, uint64_t n) { if (n) memmove(d, s, n); }   /* array shifts of interior nodes: CBMC's own model */
static inline void yk_memset(void* d, uint32_t c, uint64_t n) { if (n) memset(d, (int)c, n); }

/* ---- std::string (libstdc++ SSO layout {char* p; size_t len; union {char buf[16]; size_t cap;}}): members that are out of
 * line in libstdc++.so are modelled here, field by field, incl. the move from the local buffer to a heap buffer
 * (capacity policy of _M_create: max(requested, 2*old)); heap buffers are tracked by the ghost allocator so that the
 * sized delete in the real (header) destructor is checked.  Strings longer than YK_STR_MAX are a reported bound. */
#ifndef YK_STR_MAX
#define YK_STR_MAX 15     /* 15 = strings never leave the local buffer in this unit (growth is a reported bound); units that need heap strings set 30 */
#endif
struct yk_str { uint8_t* p; uint64_t len; uint64_t cap; uint64_t buf1; };
static inline void* yk_new(uint64_t n, uint64_t al);
static inline void yk_delete(void* p, uint64_t n, uint64_t al, int how);
static inline void yk_str_reserve(struct yk_str* s, uint64_t n)
{
    uint8_t* local = (uint8_t*)&s->cap;
    uint64_t cap = (s->p == local) ? 15 : s->cap;
    if (n <= cap) return;
#if YK_STR_MAX <= 15
    YK_ASSERT(0, "bound: std::string growth path reached (strings longer than 15 bytes are not modelled in this unit)"); YK_ASSUME(0);
#endif
    YK_ASSERT(n <= YK_STR_MAX, "bound: std::string longer than YK_STR_MAX"); YK_ASSUME(n <= YK_STR_MAX);
    uint64_t ncap = n < 2 * cap ? 2 * cap : n;
    uint8_t* q = (uint8_t*)yk_new(ncap + 1, 16);
    uint64_t len = s->len;
    YK_ASSUME(len <= YK_STR_MAX);
    for (unsigned i = 0; i < YK_STR_MAX + 1; i++) if (i <= len) q[i] = s->p[i];
    if (s->p != local) yk_delete(s->p, cap + 1, 16, 1);
    s->p = q; s->cap = ncap;
}
static inline void yk_str_append(struct yk_str* s, const uint8_t* a, uint64_t n)
{
    uint64_t len = s->len;
    YK_ASSERT(n <= 16, "bound: std::string append of more than 16 bytes"); YK_ASSUME(n <= 16);
    yk_str_reserve(s, len + n);
    for (unsigned i = 0; i < 16; i++) if (i < n) s->p[len + i] = a[i];
    s->len = len + n; s->p[len + n] = 0;
}
static inline void yk_str_assign(struct yk_str* s, uint64_t pos, uint64_t n1, const uint8_t* a, uint64_t n2)
{
    YK_ASSERT(pos == 0 && n1 == s->len, "bound: std::string::_M_replace other than whole-string assign"); YK_ASSUME(pos == 0 && n1 == s->len);
    YK_ASSERT(n2 <= 16, "bound: std::string assign of more than 16 bytes"); YK_ASSUME(n2 <= 16);
    yk_str_reserve(s, n2);
    for (unsigned i = 0; i < 16; i++) if (i < n2) s->p[i] = a[i];
    s->len = n2; s->p[n2] = 0;
}
/* ---- RTTI: Itanium ABI layout, single inheritance.  vptr[-1] is the type_info of the dynamic type;
 * a __si_class_type_info is { vptr, name, base }.  The address of the si vtable (+2) identifies that kind. */
extern uint8_t* yk_si_vtable_addr;    /* set by generated code when the module contains it; else 0 */
static inline void* yk_dynamic_cast(void* obj, void* src_ti, void* dst_ti)
{
    (void)src_ti;
    if (obj == 0) return 0;
    void** vptr = *(void***)obj;
    void** ti = (void**)vptr[-1];
    for (int depth = 0; depth < 4; depth++) {
        if ((void*)ti == dst_ti) return obj;
        if (yk_si_vtable_addr == 0 || ti[0] != (void*)yk_si_vtable_addr) return 0;
        ti = (void**)ti[2];
    }
    return 0;
}

/* ---- time, threads, scheduling */
extern uint64_t yk_clock_now;
static inline uint64_t yk_clock(void) { uint64_t d = nondet_uint64(); YK_ASSUME(d < (1ULL << 40)); yk_clock_now += d; return yk_clock_now; }
extern void* yk_thread_fn[4];
extern uint32_t yk_threads_started;
static inline void yk_thread_start(void* thr, void* state_uptr)
{   /* takes ownership of the _State object out of the unique_ptr argument, as the real _M_start_thread does */
    yk_thread_fn[yk_threads_started % 4] = *(void**)state_uptr;
    *(void**)state_uptr = 0;
    yk_threads_started++;
    *(uint64_t*)thr = yk_threads_started;
}
void yk_thread_join(void* thr);
/* ---- watch: count hooked STOREs to one address (single-word publication, C19/C17) */
extern const void* yk_watch_ptr;
extern uint32_t yk_watch_stores, yk_watch_loads;
static inline void yk_watch(const void* p) { yk_watch_ptr = p; yk_watch_stores = 0; yk_watch_loads = 0; }
static inline uint32_t yk_watch_store_count(void) { return yk_watch_stores; }
static inline uint32_t yk_watch_load_count(void) { return yk_watch_loads; }
static inline void yk_watch_note(int kind, const void* p) { if (p != 0 && p == yk_watch_ptr) { if (kind == 1) yk_watch_stores++; else if (kind == 0) yk_watch_loads++; } }
/* ---- events (RETIRE / RECLAIM / ENTER / LEAVE) recorded for the harness oracles */
#ifndef YK_NEV
#define YK_NEV 4
#endif
extern uint32_t yk_nev;
extern uint32_t yk_ev_kind[YK_NEV];
extern const void* yk_ev_ptr[YK_NEV];
extern uint64_t yk_ev_tag[YK_NEV];
static inline void yakushima_verif_event(int ev, const void* p, uint64_t tag)
{
    if (yk_nev < YK_NEV) { yk_ev_kind[yk_nev] = (uint32_t)ev; yk_ev_ptr[yk_nev] = p; yk_ev_tag[yk_nev] = tag; }
    yk_nev++;
}
static inline void yk_queue_overflow(void) { YK_ASSERT(0, "bound: gc queue model capacity (YK_QCAP) exceeded"); YK_ASSUME(0); }
static inline uint32_t yk_event_count(void) { return yk_nev; }
static inline uint32_t yk_event_kind(uint32_t i) { return i < YK_NEV ? yk_ev_kind[i] : 99; }
static inline const void* yk_event_ptr(uint32_t i) { return i < YK_NEV ? yk_ev_ptr[i] : 0; }
static inline uint64_t yk_event_tag(uint32_t i) { return i < YK_NEV ? yk_ev_tag[i] : 0; }
static inline void yk_event_reset(void) { yk_nev = 0; }
#ifndef YK_SEQ
/* plain mode: a single thread must never wait */
static inline void yk_pause(void) { YK_ASSERT(0, "fault: single thread spins (pause reached)"); YK_ASSUME(0); }
static inline void yk_sleep(void) { }
#ifndef YK_MAX_LAYERS
#define YK_MAX_LAYERS 1
#endif
extern uint32_t yk_layers;
extern uint32_t yk_sleeps;
#ifndef YK_MAX_SLEEPS
#define YK_MAX_SLEEPS 6
#endif
#ifdef YK_HAVE_ON_SLEEP
void f_yk_on_sleep(uint32_t n);
#define yk_on_sleep f_yk_on_sleep
#else
static inline void yk_on_sleep(uint32_t n) { (void)n; }
#endif
static inline void yk_layers_reset(void) { yk_layers = 0; }
static inline void yk_stop(void) { YK_ASSUME(0); }
#ifdef YK_INTRUDER
/* ---- intruder mode (kind S restricted to two context switches): thread A is the plain code of the harness; at the hook
 * site yk_win_lo..yk_win_hi (fixed per query at link time), on a nondeterministically chosen visit, the WHOLE operation
 * of thread B (registered with yk_intruder()) runs inside the hook, then A goes on.  B runs without being pre-empted:
 * a wait or a retry inside B means "B cannot complete here before A moves on", which needs a third context switch and is
 * outside this bound (assume).  After B has run, A's optimistic retries are real (bounded by YK_MAX_RETRIES); a wait
 * of A after B completed means B left a lock behind (assertion). */
#ifndef YK_WIN_LO
#define YK_WIN_LO 0u
#endif
#ifndef YK_WIN_HI
#define YK_WIN_HI 0u
#endif
#ifndef YK_WIN_VISIT
#define YK_WIN_VISIT 0
#endif
#ifndef YK_VISIT_CAP
#define YK_VISIT_CAP 3
#endif
#ifndef YK_MAX_RETRIES
#define YK_MAX_RETRIES 2
#endif
extern const uint32_t yk_win_lo, yk_win_hi;
extern void (*yk_intruder_fn)(void);
extern uint8_t yk_fired;      /* 0 = B has not run yet, 1 = B is running, 2 = B completed */
extern uint32_t yk_retries;
extern uint8_t yk_after_retry;
extern uint32_t yk_fired_site, yk_fired_visit, yk_visits, yk_hookno, yk_fired_hookno;
static inline void yk_intruder(void* fn) { yk_intruder_fn = (void (*)(void))fn; }
static inline uint32_t yk_intruder_state(void) { return yk_fired; }
static inline int yk_fire_here(uint32_t site)
{
    if (yk_fired != 0 || yk_after_retry || yk_intruder_fn == 0) return 0;
    yk_hookno++;
    if (site < yk_win_lo || site > yk_win_hi) return 0;
    yk_visits++;
#if YK_WIN_VISIT > 0
    /* the visit of the site at which B runs is fixed per query as well: the state after the hook stays concrete where it
     * was concrete before (a nondeterministic choice would turn every field B writes into an if-then-else) */
    YK_ASSERT(yk_visits <= YK_VISIT_CAP, "bound: hook site visited more often than YK_VISIT_CAP before the other thread ran");
    return yk_visits == YK_WIN_VISIT;
#else
    return nondet_uint8() & 1;
#endif
}
static inline void yk_fire_begin(uint32_t site) { yk_fired = 1; yk_fired_site = site; yk_fired_visit = yk_visits; yk_fired_hookno = yk_hookno; }
static inline void yk_fire_end(void) { yk_fired = 2; }
#endif
static inline void yk_hook(int kind, const void* p)
{
    yk_watch_note(kind, p);
#ifdef YK_INTRUDER
    if (kind == 2 && yk_fired == 1) { YK_ASSUME(0); }     /* B would have to wait for A: not a two-switch schedule */
    if (kind == 2 && yk_fired == 2) { YK_ASSERT(0, "liveness: a thread waits although the other operation has completed (lock left held)"); YK_ASSUME(0); }
    if (kind == 3 && yk_fired == 1) { YK_ASSUME(0); }     /* B retries on A's transient state: same */
    if (kind == 3 && yk_fired == 2) {
        yk_after_retry = 1;    /* a retry happens only after B ran: says so in a form symex can constant-fold in the re-executed loop bodies */
        yk_retries++;
        if (yk_retries > YK_MAX_RETRIES) { YK_ASSERT(0, "bound: more optimistic retries than YK_MAX_RETRIES"); YK_ASSUME(0); }
        return;
    }
#endif
    if (kind == 2) { YK_ASSERT(0, "fault: single thread waits (SPIN hook reached)"); YK_ASSUME(0); }
    /* an optimistic retry needs a concurrent writer: with one thread every RETRY back edge is dead code, and the
     * assertion says so (this also keeps symex from unrolling the retry loops) */
    if (kind == 3) { YK_ASSERT(0, "fault: single thread retries (RETRY hook reached)"); YK_ASSUME(0); }
    /* descent into the next trie layer: bounded by the number of layers the harness's shape has */
    /* epoch / gc period: the harness observes every period through yk_on_sleep(); the number of periods is bounded */
    if (kind == 4) {
        yk_sleeps++;
        yk_on_sleep(yk_sleeps);
        if (yk_sleeps > YK_MAX_SLEEPS) { YK_ASSERT(0, "bound: more epoch/gc periods than YK_MAX_SLEEPS"); YK_ASSUME(0); }
    }
    if (kind == 5) { yk_layers++; if (yk_layers >= YK_MAX_LAYERS) { YK_ASSERT(0, "bound: descent below the deepest layer of the shape"); YK_ASSUME(0); } }
}
#else
/* ---- sequentialized schedules (kind S, DESIGN 2.5): thread entries are coroutines (ll2c coroutine mode); every hook
 * inside them is a possible pre-emption point, decided by yk_preempt(); code outside the thread entries (harness
 * set-up, oracles, non-inlined callees) runs atomically. */
#ifndef YK_NT
#define YK_NT 2
#endif
#ifndef YK_MAXCTX
#define YK_MAXCTX 24
#endif
#ifndef YK_DRAIN_ROUNDS
#define YK_DRAIN_ROUNDS 3
#endif
extern int32_t yk_cur;                 /* running thread or -1 */
extern uint8_t yk_draining;
extern uint32_t yk_hooks_in_ctx;
extern uint32_t yk_nctx;               /* contexts executed so far (incl. drain) */
extern uint8_t yk_sched[YK_MAXCTX];    /* thread run in context c */
extern uint32_t yk_ctx_len[YK_MAXCTX]; /* hooks passed in context c (the last one pre-empted unless the thread finished) */
extern uint8_t yk_ctx_fin[YK_MAXCTX];  /* the thread finished in context c */
extern uint8_t yk_done[YK_NT];
extern uint32_t yk_layers;
extern uint32_t yk_sleeps;
static inline void yk_pause(void) { }
static inline void yk_sleep(void) { }
static inline void yk_layers_reset(void) { yk_layers = 0; }
static inline void yk_stop(void) { YK_ASSUME(0); }
static inline void yk_hook(int kind, const void* p) { yk_watch_note(kind, p); }   /* outside thread entries: atomic */
#ifndef YK_MAX_SLEEPS
#define YK_MAX_SLEEPS 2
#endif
#ifndef YK_MAX_LAYERS
#define YK_MAX_LAYERS 1
#endif
extern uint32_t yk_thr_layers[YK_NT];
extern uint32_t yk_thr_sleeps[YK_NT];
extern uint8_t yk_parked[YK_NT];       /* a background thread that used up its periods: never scheduled again */
static inline int yk_preempt(int kind, const void* p)
{
    yk_watch_note(kind, p);
    yk_hooks_in_ctx++;
    if (kind == 5) {                                      /* layer descent: bounded by the depth of the harness's shape (per thread) */
        if (yk_cur >= 0) {
            yk_thr_layers[yk_cur]++;
            if (yk_thr_layers[yk_cur] >= YK_MAX_LAYERS) { YK_ASSERT(0, "bound: descent below the deepest layer of the shape"); YK_ASSUME(0); }
        }
        return 0;
    }
    if (kind == 2 || kind == 3) return 1;                 /* wait / retry: always hand the processor over */
    if (kind == 4) {
        /* sleepMs(period): the period is ARBITRARY (the thread may go on at once or be delayed); after YK_MAX_SLEEPS
         * periods the background thread is parked for good (the bound on epoch advances / gc passes) */
        if (yk_cur >= 0) { yk_thr_sleeps[yk_cur]++; if (yk_thr_sleeps[yk_cur] > YK_MAX_SLEEPS) { yk_parked[yk_cur] = 1; return 1; } }
        if (yk_draining) return 0;
        return nondet_uint8() & 1;
    }
    if (yk_draining) return 0;                            /* fair continuation: no voluntary pre-emption */
    return nondet_uint8() & 1;
}
/* windowed pre-emption (case split of the schedule space over queries): voluntary pre-emption is possible only at the
 * hook sites yk_win_lo..yk_win_hi (site ids are assigned by ll2c, unique over all threads); the constants are fixed per
 * query at link time so that symex follows ONE resume point instead of all of them.  Default window = every site. */
#ifndef YK_WIN_LO
#define YK_WIN_LO 0u
#endif
#ifndef YK_WIN_HI
#define YK_WIN_HI 0xffffffffu
#endif
extern const uint32_t yk_win_lo, yk_win_hi;
static inline int yk_preempt_s(int kind, const void* p, uint32_t site)
{
    if (kind == 0 || kind == 1) {
        if (site < yk_win_lo || site > yk_win_hi) { yk_watch_note(kind, p); yk_hooks_in_ctx++; return 0; }
    }
    return yk_preempt(kind, p);
}
void yk_thread(uint32_t i, void* fn);
void yk_allow_ctx(uint32_t c, uint32_t mask);
void yk_run_threads(uint32_t ctx);
uint32_t yk_thread_done(uint32_t i);
uint32_t yk_ctx_of_finish(uint32_t i);
uint32_t yk_ctx_of_start(uint32_t i);
#endif
#endif
