/* definitions of the runtime globals declared in rt.h */
#include "rt.h"
uint64_t yk_in[YK_NIN];
uint32_t yk_nin;
uint32_t yk_last_note;
uint32_t yk_logged_errors;
const char* yk_log_file;
uint32_t yk_log_line;
uint32_t yk_log_allow_line;
char yk_ostream[512];
uint32_t yk_errno;
int64_t yk_live;
uint64_t yk_news, yk_deletes;
void* yk_ap[YK_NALLOC];
uint64_t yk_an[YK_NALLOC], yk_aa[YK_NALLOC];
uint8_t yk_al[YK_NALLOC];
uint64_t yk_clock_now;
uint32_t yk_layers;
uint32_t yk_sleeps;
uint32_t yk_nev;
uint32_t yk_ev_kind[YK_NEV];
const void* yk_ev_ptr[YK_NEV];
uint64_t yk_ev_tag[YK_NEV];
const void* yk_watch_ptr;
uint32_t yk_watch_stores, yk_watch_loads;
void* yk_thread_fn[4];
uint32_t yk_threads_started;
#ifndef YK_HAVE_SI_VTABLE
uint8_t* yk_si_vtable_addr;
#endif
#ifndef YK_HAVE_THREAD_JOIN
void yk_thread_join(void* thr) { (void)thr; YK_ASSERT(0, "fault: thread::join without a join model"); }
#endif
#ifndef YK_CBMC
#include <stdio.h>
void yk_native_fail(const char* msg) { printf("NATIVE-FAIL %s (note %u)\n", msg, yk_last_note); exit(1); }
void yk_native_assume_fail(void) { printf("NATIVE-ASSUME-FAIL (note %u)\n", yk_last_note); exit(3); }
#endif
