/* definitions of the runtime globals declared in rt.h */
#include "rt.h"
uint64_t yk_in[YK_NIN];
uint32_t yk_nin;
uint32_t yk_last_note;
uint32_t yk_logged_errors;
const char* yk_log_file;
uint32_t yk_log_line;
uint32_t yk_log_allow_line;
char yk_ostream[512];
uint32_t yk_errno;
int64_t yk_live;
uint64_t yk_news, yk_deletes;
void* yk_ap[YK_NALLOC];
uint64_t yk_an[YK_NALLOC], yk_aa[YK_NALLOC];
uint8_t yk_al[YK_NALLOC];
uint64_t yk_clock_now;
uint32_t yk_layers;
uint32_t yk_sleeps;
uint32_t yk_nev;
uint32_t yk_ev_kind[YK_NEV];
const void* yk_ev_ptr[YK_NEV];
uint64_t yk_ev_tag[YK_NEV];
const void* yk_watch_ptr;
uint32_t yk_watch_stores, yk_watch_loads;
void* yk_thread_fn[4];
uint32_t yk_threads_started;
#ifdef YK_INTRUDER
const uint32_t yk_win_lo = YK_WIN_LO, yk_win_hi = YK_WIN_HI;
void (*yk_intruder_fn)(void);
uint8_t yk_fired;
uint32_t yk_retries;
uint8_t yk_after_retry;
uint32_t yk_fired_site, yk_fired_visit, yk_visits, yk_hookno, yk_fired_hookno;
#endif
#ifdef YK_SEQ
int32_t yk_cur = -1;
uint8_t yk_draining;
uint32_t yk_hooks_in_ctx;
uint32_t yk_nctx;
uint8_t yk_sched[YK_MAXCTX];
uint32_t yk_ctx_len[YK_MAXCTX];
uint8_t yk_ctx_fin[YK_MAXCTX];
uint8_t yk_done[YK_NT];
uint32_t yk_thr_sleeps[YK_NT];
uint32_t yk_thr_layers[YK_NT];
uint8_t yk_parked[YK_NT];
static uint32_t yk_fin_ctx[YK_NT];
static uint32_t yk_start_ctx[YK_NT];
static uint8_t yk_started[YK_NT];
uint32_t yk_ctx_of_start(uint32_t i) { return i < YK_NT ? yk_start_ctx[i] : 0; }
typedef int (*yk_thr_fn)(void);
static yk_thr_fn yk_thr[YK_NT];
void yk_thread(uint32_t i, void* fn) { if (i < YK_NT) yk_thr[i] = (yk_thr_fn)fn; }
uint32_t yk_thread_done(uint32_t i) { return i < YK_NT ? yk_done[i] : 0; }
uint32_t yk_ctx_of_finish(uint32_t i) { return i < YK_NT ? yk_fin_ctx[i] : 0; }
const uint32_t yk_win_lo = YK_WIN_LO, yk_win_hi = YK_WIN_HI;
uint8_t yk_allow[YK_MAXCTX];   /* optional schedule template: threads allowed in context c (bit mask; 0 = any) */
void yk_allow_ctx(uint32_t c, uint32_t mask) { if (c < YK_MAXCTX) yk_allow[c] = (uint8_t)mask; }
static void yk_one_context(uint32_t t, uint32_t allow)
{
    yk_cur = (int32_t)t;
    yk_hooks_in_ctx = 0;
    if (!yk_started[t]) { yk_started[t] = 1; yk_start_ctx[t] = yk_nctx; }
    int r = 0;
    /* explicit dispatch: with a constant template mask symex drops the threads that cannot run here */
    if (t == 0 && (allow & 1u)) r = yk_thr[0]();
#if YK_NT > 1
    else if (t == 1 && (allow & 2u)) r = yk_thr[1]();
#endif
#if YK_NT > 2
    else if (t == 2 && (allow & 4u)) r = yk_thr[2]();
#endif
#if YK_NT > 3
    else if (t == 3 && (allow & 8u)) r = yk_thr[3]();
#endif
    else { YK_ASSUME(0); }
    yk_cur = -1;
    if (yk_nctx < YK_MAXCTX) { yk_sched[yk_nctx] = (uint8_t)t; yk_ctx_len[yk_nctx] = yk_hooks_in_ctx; yk_ctx_fin[yk_nctx] = (r && !yk_parked[t]) ? 0 : (yk_parked[t] ? 2 : 1); }
    if (!r || yk_parked[t]) { yk_done[t] = 1; yk_fin_ctx[t] = yk_nctx; }
    yk_nctx++;
}
/* ctx symbolic contexts (which thread runs, where it is pre-empted), then a deterministic fair continuation: the
 * unfinished threads round-robin, pre-empted only where they wait/retry.  A thread that still has not finished then
 * is reported (deadlock / lost wake-up / lock left held reachable within the bound). */
void yk_run_threads(uint32_t ctx)
{
    for (uint32_t c = 0; c < ctx; c++) {
        uint32_t left = 0;
        for (uint32_t i = 0; i < YK_NT; i++) left += yk_done[i] ? 0 : 1;
        if (left == 0) break;
        uint32_t t = nondet_uint8();
        uint32_t allow = yk_allow[c] ? yk_allow[c] : 0xffu;
        YK_ASSUME(t < YK_NT && !yk_done[t] && ((allow >> t) & 1u));
        yk_one_context(t, allow);
    }
    yk_draining = 1;
    for (uint32_t r = 0; r < YK_DRAIN_ROUNDS; r++)
        for (uint32_t t = 0; t < YK_NT; t++)
            if (!yk_done[t]) yk_one_context(t, 1u << t);
    for (uint32_t t = 0; t < YK_NT; t++)
        YK_ASSERT(yk_done[t], "liveness: a thread did not finish in the fair continuation (deadlock / lock left held)");
    yk_draining = 0;
}
#endif
#ifndef YK_HAVE_SI_VTABLE
uint8_t* yk_si_vtable_addr;
#endif
#ifndef YK_HAVE_THREAD_JOIN
void yk_thread_join(void* thr) { (void)thr; YK_ASSERT(0, "fault: thread::join without a join model"); }
#endif
#ifndef YK_CBMC
#include <stdio.h>
void yk_native_fail(const char* msg) { printf("NATIVE-FAIL %s (note %u)\n", msg, yk_last_note); exit(1); }
void yk_native_assume_fail(void) { printf("NATIVE-ASSUME-FAIL (note %u)\n", yk_last_note); exit(3); }
#endif
