// Harness-side API (C++).  The same harness source is (a) compiled by clang++ to LLVM IR, translated by ll2c and
// decided by CBMC, and (b) compiled by g++ against the real headers for the native replay of a counterexample.
#pragma once
#include <cstdint>
#include <cstddef>
extern "C" {
std::uint64_t yk_nondet_u64(void);
std::uint32_t yk_nondet_u32(void);
std::uint8_t yk_nondet_u8(void);
std::uint8_t yk_nondet_bool(void);
void yk_assume(bool c);
void yk_watch(const void* p);                     // count hooked LOAD/STORE steps on one address
std::uint32_t yk_watch_store_count(void);
std::uint32_t yk_watch_load_count(void);
// events emitted by the guarded hooks (0 RETIRE, 1 RECLAIM, 2 ENTER, 3 LEAVE), in program order
std::uint32_t yk_event_count(void);
std::uint32_t yk_event_kind(std::uint32_t i);
const void* yk_event_ptr(std::uint32_t i);
std::uint64_t yk_event_tag(std::uint32_t i);
void yk_event_reset(void);
std::int64_t yk_live_allocs(void);              // live blocks obtained through operator new (any variant)
int yk_is_live(const void* p);
// kind S: register thread entry i (a void(void) function of the harness) and run them under a symbolic schedule of at
// most `ctx` contexts followed by the fair continuation (CBMC: sequentialized coroutines; native: real threads gated by
// the hooks, following the recorded schedule)
void yk_thread(std::uint32_t i, void (*fn)());
void yk_run_threads(std::uint32_t ctx);
// schedule template (optional): only the threads in `mask` may run in symbolic context c (pre-emption points stay symbolic)
void yk_allow_ctx(std::uint32_t c, std::uint32_t mask);
std::uint32_t yk_thread_done(std::uint32_t i);
std::uint32_t yk_ctx_of_finish(std::uint32_t i);
std::uint32_t yk_ctx_of_start(std::uint32_t i);   // context index of invocation / response: real-time order of operations
void yk_stop(void);                            // end of the explored run (CBMC: assume(false); native: exit(0))                  // p is a block obtained through operator new and not yet deleted
void yk_layers_reset(void);                      // restart the count of trie-layer descents (bound YK_MAX_LAYERS per real call)
// intruder mode (two context switches): `fn` (the other thread's whole operation) runs inside ONE hook of the calling code,
// at a site/visit chosen by the solver.  state: 0 not run, 1 running, 2 completed
void yk_intruder(void (*fn)());
std::uint32_t yk_intruder_state(void);
void yk_assert_at(bool c, std::uint32_t line);   // ll2c turns this into __CPROVER_assert(c, "yk:<line>")
void yk_reach_at(std::uint32_t line);            // ... into __CPROVER_assert(0, "reach:<line>"): the vacuity witness, MUST fail
}
#define YK_ASSERT(c) yk_assert_at((c), __LINE__)
#define YK_REACH() yk_reach_at(__LINE__)
// a witness that belongs only to the harnesses that declare tag `t` (shared callbacks): ignored elsewhere
#define YK_REACH_TAG(t) yk_reach_at(__LINE__ + 100000u * (t))
#define YK_HARNESS extern "C" __attribute__((noinline, used)) void
