// Harness-side API (C++).  The same harness source is (a) compiled by clang++ to LLVM IR, translated by ll2c and
// decided by CBMC, and (b) compiled by g++ against the real headers for the native replay of a counterexample.
#pragma once
#include <cstdint>
#include <cstddef>
extern "C" {
std::uint64_t yk_nondet_u64(void);
std::uint32_t yk_nondet_u32(void);
std::uint8_t yk_nondet_u8(void);
std::uint8_t yk_nondet_bool(void);
void yk_assume(bool c);
void yk_watch(const void* p);                     // count hooked LOAD/STORE steps on one address
std::uint32_t yk_watch_store_count(void);
std::uint32_t yk_watch_load_count(void);
void yk_assert_at(bool c, std::uint32_t line);   // ll2c turns this into __CPROVER_assert(c, "yk:<line>")
void yk_reach_at(std::uint32_t line);            // ... into __CPROVER_assert(0, "reach:<line>"): the vacuity witness, MUST fail
}
#define YK_ASSERT(c) yk_assert_at((c), __LINE__)
#define YK_REACH() yk_reach_at(__LINE__)
#define YK_HARNESS extern "C" __attribute__((noinline, used)) void
