// Kind K harnesses for C18: every (slice,length) comparison site against ONE reference order.
// Reference = the statement itself: unsigned bytewise lexicographic order of the key bytes, a proper prefix first;
// for tuples: compare the first min(len,8) bytes, then "shorter first", then 8 before 9 (9 = continues in next layer).
#include "kvs.h"
#include "yk.h"
#include <cstring>
using namespace yakushima;
using kt = base_node::key_tuple;

namespace {
inline unsigned eff(unsigned len) { return len > 8 ? 8 : len; }
inline bool ref_lt(std::uint64_t sa, unsigned la, std::uint64_t sb, unsigned lb) {
    unsigned ea = eff(la), eb = eff(lb);
    for (unsigned i = 0; i < 8; ++i) {
        if (i >= ea || i >= eb) break;
        unsigned a = (unsigned) ((sa >> (8 * i)) & 0xff), b = (unsigned) ((sb >> (8 * i)) & 0xff); // byte i of the key (little endian slice)
        if (a != b) return a < b;
    }
    if (ea != eb) return ea < eb; // proper prefix sorts first
    return la < lb;               // same 8 bytes: the 8-byte key before the longer keys
}
inline bool valid_tuple(std::uint64_t s, unsigned l) {
    if (l > 9) return false;
    if (l < 8 && (s >> (8 * l)) != 0) return false; // zero padding above the key bytes
    return true;
}
struct sym_tuple {
    std::uint64_t s;
    unsigned l;
};
inline sym_tuple sym() {
    sym_tuple t{yk_nondet_u64(), yk_nondet_u8()};
    yk_assume(valid_tuple(t.s, t.l));
    return t;
}
} // namespace

// key_tuple's operators = the reference strict total order (all pairs)
YK_HARNESS H_cmp_tuple_pair() {
    sym_tuple a = sym(), b = sym();
    kt ka{a.s, (key_length_type) a.l}, kb{b.s, (key_length_type) b.l};
    bool lt = ref_lt(a.s, a.l, b.s, b.l), gt = ref_lt(b.s, b.l, a.s, a.l);
    YK_ASSERT((ka < kb) == lt);
    YK_ASSERT((ka > kb) == gt);
    YK_ASSERT((ka <= kb) == !gt);
    YK_ASSERT((ka >= kb) == !lt);
    YK_ASSERT((ka == kb) == (a.s == b.s && a.l == b.l));
    YK_ASSERT((ka != kb) == !(a.s == b.s && a.l == b.l));
    // strict total order on valid tuples: exactly one of <, ==, >
    YK_ASSERT(((ka < kb) ? 1 : 0) + ((ka == kb) ? 1 : 0) + ((ka > kb) ? 1 : 0) == 1);
    if (a.s == b.s && a.l == 8 && b.l == 9) YK_REACH();
    if (a.l == 0 && b.l == 1 && b.s == 0) YK_REACH(); // "" vs "\0"
    if (a.l == 3 && b.l == 5 && lt && (a.s & 0xffffff) == (b.s & 0xffffff)) YK_REACH(); // proper prefix
    YK_REACH();
}

// transitivity on triples, and the sentinels bound everything
YK_HARNESS H_cmp_tuple_triple() {
    sym_tuple a = sym(), b = sym(), c = sym();
    kt ka{a.s, (key_length_type) a.l}, kb{b.s, (key_length_type) b.l}, kc{c.s, (key_length_type) c.l};
    if (ka < kb && kb < kc) {
        YK_ASSERT(ka < kc);
        YK_REACH();
    }
    YK_ASSERT(!(ka < kt::min()));
    YK_ASSERT(!(kt::max() < ka));
    YK_REACH();
}

// key_tuple(string_view) builds the (zero padded slice, length) of the first layer of a key
YK_HARNESS H_cmp_tuple_from_view() {
    char buf[10];
    for (char& ch : buf) ch = (char) yk_nondet_u8();
    std::size_t n = yk_nondet_u8();
    yk_assume(n <= 10);
    kt k{std::string_view(buf, n)};
    unsigned el = n > 8 ? 9 : (unsigned) n;
    YK_ASSERT(k.get_key_length() == el);
    std::uint64_t s = 0;
    for (unsigned i = 0; i < 8; ++i)
        if (i < n) s |= (std::uint64_t) (unsigned char) buf[i] << (8 * i);
    YK_ASSERT(k.get_key_slice() == s);
    YK_ASSERT(valid_tuple(k.get_key_slice(), k.get_key_length()));
    if (n == 8) YK_REACH();
    if (n == 9) YK_REACH();
    if (n == 0) YK_REACH();
    YK_REACH();
}
