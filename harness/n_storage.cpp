// Kind N harnesses for C13 (storages are isolated namespaces with map-like find / list / create / delete): the storages
// tree is built directly (what create_storage + puts leave behind: a root border whose values are tree_instance
// objects), names and keys symbolic, then ONE real API call by name.
#include "builder.h"
using namespace yakushima;
using namespace ykb;

namespace {
// storages tree with N storages; names = symbolic keys (0..8 bytes, strictly ascending); storage i owns a data tree
template<unsigned N>
struct stg {
    bstate<N> names;                 // entries: the storage names (values replaced below)
    tree_instance* inst[N > 0 ? N : 1];
    bstate<1> data[N > 0 ? N : 1];   // storage i holds ONE symbolic entry
};
template<unsigned N>
inline void build_storages(stg<N>& s) {
    build_border<N>(s.names, true, 0);
    for (unsigned i = 0; i < N; ++i) {
        tree_instance proto;
        value* v = value::create_value<false>(&proto, sizeof(tree_instance), static_cast<value_align_type>(alignof(tree_instance)));
        value::delete_value(s.names.e[i].val); // replace the builder's 1-byte value by a tree_instance
        s.names.node->get_lv_at(s.names.e[i].slot)->init_lv();
        s.names.node->set_lv_value(s.names.e[i].slot, v, nullptr);
        s.names.e[i].val = v;
        s.inst[i] = static_cast<tree_instance*>(value::get_body(v));
        build_border<1>(s.data[i], true, 0);
        s.inst[i]->store_root_ptr(s.data[i].node);
    }
    storage::get_storages()->store_root_ptr(s.names.node);
}
struct name_key {
    sym_key k;
    std::uint64_t slice;
    unsigned len;
};
inline void mk_name(name_key& n) {
    make_key<8>(n.k);
    key_layer(n.k.b, n.k.len, 0, n.slice, n.len);
}

// find_storage: OK + the right instance iff the name exists; data get by name sees exactly that storage's entries
template<unsigned N>
inline void c13_find_and_get() {
    stg<N> s;
    build_storages(s);
    name_key n;
    mk_name(n);
    int f = ref_find(s.names, n.slice, n.len);
    tree_instance* ti = nullptr;
    status rc = storage::find_storage(sv(n.k), &ti);
    sym_key q;
    make_key<8>(q);
    std::uint64_t qs;
    unsigned ql;
    key_layer(q.b, q.len, 0, qs, ql);
    std::pair<char*, std::size_t> out{nullptr, 0};
    status g = get<char>(sv(n.k), sv(q), out);
    if (f >= 0) {
        YK_ASSERT(rc == status::OK && ti == s.inst[f]);
        int df = ref_find(s.data[f], qs, ql);
        YK_ASSERT(g == (df >= 0 ? status::OK : status::WARN_NOT_EXIST)); // only this storage's keys are visible
        if (df >= 0) {
            YK_ASSERT(out.first == static_cast<char*>(value::get_body(s.data[f].e[df].val)));
            YK_REACH();
        }
        YK_REACH();
    } else {
        YK_ASSERT(rc == status::WARN_NOT_EXIST);
        YK_ASSERT(g == status::WARN_STORAGE_NOT_EXIST);
        YK_REACH();
    }
}

// data put / remove by name touch only the named storage; unknown name => WARN_STORAGE_NOT_EXIST and nothing changes
template<unsigned N>
inline void c13_put_isolated() {
    stg<N> s;
    build_storages(s);
    session ss;
    open_session(ss);
    name_key n;
    mk_name(n);
    int f = ref_find(s.names, n.slice, n.len);
    sym_key k;
    make_key<8>(k);
    std::uint64_t ks;
    unsigned kl;
    key_layer(k.b, k.len, 0, ks, kl);
    char nv = (char) yk_nondet_u8();
    std::uint64_t perm_before[N];
    for (unsigned i = 0; i < N; ++i) perm_before[i] = s.data[i].node->get_permutation().get_body();
    status rc = put<char>(ss.tok(), sv(n.k), sv(k), &nv, 1);
    if (f < 0) {
        YK_ASSERT(rc == status::WARN_STORAGE_NOT_EXIST);
        YK_REACH();
    } else {
        YK_ASSERT(rc == status::OK);
        YK_REACH();
    }
    for (unsigned i = 0; i < N; ++i) {
        if ((int) i == f) continue;
        // every other storage: same root, same node contents, its own entry still readable by name
        YK_ASSERT(s.inst[i]->load_root_ptr() == s.data[i].node);
        YK_ASSERT(s.data[i].node->get_permutation().get_body() == perm_before[i]);
        YK_ASSERT(ri_border(s.data[i].node, true, nullptr));
        YK_ASSERT(s.data[i].node->get_lv_at(s.data[i].e[0].slot)->get_value() == s.data[i].e[0].val);
    }
    YK_ASSERT(ri_border(s.names.node, true, nullptr)); // the directory itself is untouched by data operations
    if (f >= 0) {
        std::pair<char*, std::size_t> out{nullptr, 0};
        YK_ASSERT(get<char>(sv(n.k), sv(k), out) == status::OK && *out.first == nv);
    }
}

// list_storages: all names, ascending, each with its instance; WARN_NOT_EXIST when there is none
template<unsigned N>
inline void c13_list() {
    stg<N> s;
    build_storages(s);
    std::vector<std::pair<std::string, tree_instance*>> out;
    status rc = storage::list_storages(out);
    YK_ASSERT(rc == status::OK);
    YK_ASSERT(out.size() == N);
    for (unsigned i = 0; i < N; ++i) {
        if (i < out.size()) {
            YK_ASSERT(out[i].second == s.inst[i]);
            YK_ASSERT(out[i].first.size() == s.names.e[i].len);
            for (unsigned j = 0; j < 8; ++j)
                if (j < s.names.e[i].len) YK_ASSERT((unsigned char) out[i].first[j] == (unsigned char) (s.names.e[i].slice >> (8 * j)));
        }
    }
    YK_REACH();
}
} // namespace

#define YK_ENTRY(name, call) YK_HARNESS name() { call; }
YK_ENTRY(H_c13_find_get_n1, (c13_find_and_get<1>()))
YK_ENTRY(H_c13_find_get_n2, (c13_find_and_get<2>()))
YK_ENTRY(H_c13_put_isolated_n1, (c13_put_isolated<1>()))
YK_ENTRY(H_c13_put_isolated_n2, (c13_put_isolated<2>()))
YK_ENTRY(H_c13_list_n1, (c13_list<1>()))
YK_ENTRY(H_c13_list_n2, (c13_list<2>()))
