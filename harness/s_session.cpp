// Kind S harnesses for C14 (concurrent enter/leave) and C07(i) (the epoch / reclamation protocol): the REAL
// enter/leave, epoch_manager::epoch_thread, gc_thread and garbage_collection code under symbolic schedules.
// The tree is abstracted to one shared cell holding a real value block (the call sites that retire real tree objects
// are checked separately for conformance with this protocol: C07(ii), kind N).
#include "kvs.h"
#include "yk.h"
using namespace yakushima;

#ifndef CTX
#define CTX 6
#endif
#define SESS YAKUSHIMA_MAX_PARALLEL_SESSIONS

namespace {
// ---------------------------------------------------------------------------------------------- C14
Token g_tok[3];
status g_rc[3];
bool g_open[3];  // ghost: session of thread k is open (set after enter returned OK, cleared before leave is called)
bool g_did_leave[3];
inline void check_exclusive(int k) {
    unsigned open = 0;
    for (int j = 0; j < 3; ++j) {
        if (g_open[j]) ++open;
        if (j != k && g_open[j]) YK_ASSERT(g_tok[j] != g_tok[k]); // never the same token for two open sessions
    }
    YK_ASSERT(open <= SESS); // hard capacity
}
inline void enter_only(int k) {
    g_rc[k] = enter(g_tok[k]);
    if (g_rc[k] == status::OK) {
        g_open[k] = true;
        check_exclusive(k);
    }
}
inline void enter_leave_enter(int k) {
    g_rc[k] = enter(g_tok[k]);
    if (g_rc[k] == status::OK) {
        g_open[k] = true;
        check_exclusive(k);
        g_open[k] = false;
        leave(g_tok[k]);
        g_did_leave[k] = true;
        g_rc[k] = enter(g_tok[k]);
        if (g_rc[k] == status::OK) {
            g_open[k] = true;
            check_exclusive(k);
        }
    }
}
} // namespace
extern "C" __attribute__((used)) void T_enter0() { enter_only(0); }
extern "C" __attribute__((used)) void T_enter1() { enter_only(1); }
extern "C" __attribute__((used)) void T_enter2() { enter_only(2); }
extern "C" __attribute__((used)) void T_ele0() { enter_leave_enter(0); }

// NT enters race for SESS slots (no leave): exactly min(NT, SESS) succeed, with distinct tokens; a failed enter is only
// possible when every slot was taken; every open session is counted by the reclamation protocol
YK_HARNESS H_c14_concurrent_enter() {
    thread_info_table::init();
    yk_thread(0, &T_enter0);
    yk_thread(1, &T_enter1);
    yk_thread(2, &T_enter2);
    yk_run_threads(CTX);
    unsigned ok = 0;
    for (int k = 0; k < 3; ++k) {
        YK_ASSERT(g_rc[k] == status::OK || g_rc[k] == status::WARN_MAX_SESSIONS);
        if (g_rc[k] == status::OK) {
            ++ok;
            auto* ti = static_cast<thread_info*>(g_tok[k]);
            YK_ASSERT(ti->get_running() && ti->get_begin_epoch() != 0);
        }
    }
    YK_ASSERT(ok == (3 < SESS ? 3 : SESS));
    if (g_rc[0] == status::WARN_MAX_SESSIONS) YK_REACH();
    if (g_rc[2] == status::OK && g_rc[1] == status::OK) YK_REACH();
    YK_REACH();
}
// enter;leave;enter racing with two plain enters: exclusivity and capacity at every moment, slot reuse after leave
YK_HARNESS H_c14_concurrent_enter_leave() {
    thread_info_table::init();
    yk_thread(0, &T_ele0);
    yk_thread(1, &T_enter1);
    yk_thread(2, &T_enter2);
    yk_run_threads(CTX);
    unsigned ok = 0;
    for (int k = 0; k < 3; ++k)
        if (g_rc[k] == status::OK) ++ok;
    YK_ASSERT(ok <= SESS);
    YK_ASSERT(ok >= 1);
    if (g_did_leave[0] && g_rc[0] == status::WARN_MAX_SESSIONS) YK_REACH(); // lost its slot to a racer after leaving
    YK_REACH();
}

// ---------------------------------------------------------------------------------------------- C07 (i)
namespace {
value* g_cell = nullptr;          // the "tree": one published value
const void* g_blk = nullptr;      // its memory block
bool g_w_used = false, g_r_retired = false;
unsigned char g_seen = 0;
} // namespace
// reader session: obtains the pointer inside its session and uses it until it leaves
extern "C" __attribute__((used)) void T_reader_session() {
    Token t{};
    if (enter(t) != status::OK) return;
    yakushima_verif_hook(0, &g_cell);
    value* p = g_cell; // "get": pointer handed out inside the session
    if (p != nullptr) {
        yakushima_verif_hook(0, p);
        // any number of removes / epoch advances / gc passes may happen here
        YK_ASSERT(yk_is_live(g_blk)); // ... the memory must still be valid: the session has not left
        g_seen = *static_cast<unsigned char*>(value::get_body(p));
        g_w_used = true;
        yakushima_verif_hook(0, p);
        YK_ASSERT(yk_is_live(g_blk));
    }
    leave(t);
}
// writer session: unlinks the value and retires it exactly as remove / put-overwrite do
extern "C" __attribute__((used)) void T_remover_session() {
    Token t{};
    if (enter(t) != status::OK) return;
    auto* ti = static_cast<thread_info*>(t);
    yakushima_verif_hook(1, &g_cell);
    value* p = g_cell;
    g_cell = nullptr; // unlink
    if (p != nullptr) {
        auto [blk, len, al] = value::get_gc_info(p);
        ti->get_gc_info().push_value_container({ti->get_begin_epoch(), blk, len, al});
        g_r_retired = true;
    }
    leave(t);
}
extern "C" __attribute__((used)) void T_epoch() { epoch_manager::epoch_thread(); }
extern "C" __attribute__((used)) void T_gc() { epoch_manager::gc_thread(); }

// thread ids: 0 reader session, 1 remover session, 2 epoch thread, 3 gc thread
#ifndef C07_TEMPLATE
#define C07_TEMPLATE 0
#endif
template<int TPL>
static inline void c07_protocol() {
    // schedule templates (which threads may run in which context; every pre-emption POINT stays symbolic):
    // 1: remover, epoch, reader, remover, gc, reader   2: reader, remover, epoch, gc, reader, epoch|gc
    if (TPL == 1) {
        yk_allow_ctx(0, 2); yk_allow_ctx(1, 4); yk_allow_ctx(2, 1); yk_allow_ctx(3, 2); yk_allow_ctx(4, 8); yk_allow_ctx(5, 1);
    } else if (TPL == 2) {
        yk_allow_ctx(0, 1); yk_allow_ctx(1, 2); yk_allow_ctx(2, 4); yk_allow_ctx(3, 8); yk_allow_ctx(4, 1); yk_allow_ctx(5, 12);
    }
    thread_info_table::init();
    unsigned char b = yk_nondet_u8();
    g_cell = value::create_value<false>(&b, 1, static_cast<value_align_type>(1));
    g_blk = std::get<0>(value::get_gc_info(g_cell));
    yk_thread(0, &T_reader_session);
    yk_thread(1, &T_remover_session);
    yk_thread(2, &T_epoch);
    yk_thread(3, &T_gc);
    yk_run_threads(CTX);
    if (g_w_used) YK_ASSERT(g_seen == b); // contents kept
    if (g_w_used && g_r_retired && !yk_is_live(g_blk)) YK_REACH(); // used, then retired and reclaimed: the interesting order
    if (g_r_retired) YK_REACH();
    YK_REACH();
}
YK_HARNESS H_c07_protocol_t1() { c07_protocol<1>(); }
YK_HARNESS H_c07_protocol_t2() { c07_protocol<2>(); }
YK_HARNESS H_c07_protocol_any() { c07_protocol<0>(); }

// ---- C07(i), lean form: the reader session stays OPEN at the end of the schedule; the gc pass is then run to completion
// (real thread_info_table::gc(), twice) while that session is still open: nothing the reader obtained may be released.
// Threads: reader (enter; read the pointer), remover (enter; unlink; retire; leave), epoch thread.
namespace {
Token g_rd_tok = nullptr;
value* g_rd_p = nullptr;
} // namespace
extern "C" __attribute__((used)) void T_reader_open() {
    if (enter(g_rd_tok) != status::OK) {
        g_rd_tok = nullptr;
        return;
    }
    yakushima_verif_hook(0, &g_cell);
    g_rd_p = g_cell; // pointer handed out inside the (still open) session
}
template<int TPL>
static inline void c07_lean() {
    if (TPL == 1) { // remover, epoch, reader, remover
        yk_allow_ctx(0, 2); yk_allow_ctx(1, 4); yk_allow_ctx(2, 1); yk_allow_ctx(3, 2);
    }
    thread_info_table::init();
    unsigned char b = yk_nondet_u8();
    g_cell = value::create_value<false>(&b, 1, static_cast<value_align_type>(1));
    g_blk = std::get<0>(value::get_gc_info(g_cell));
    yk_thread(0, &T_reader_open);
    yk_thread(1, &T_remover_session);
    yk_thread(2, &T_epoch);
    yk_run_threads(TPL == 1 ? 4 : CTX);
    // quiescence of the workers; the reader's session is still open.  Let the collector run.
    thread_info_table::gc();
    thread_info_table::gc();
    if (g_rd_tok != nullptr && g_rd_p != nullptr) {
        YK_ASSERT(yk_is_live(g_blk)); // obtained inside a session that has not left: must not have been released
        YK_ASSERT(*static_cast<unsigned char*>(value::get_body(g_rd_p)) == b);
        if (g_r_retired) YK_REACH();
    }
    if (g_r_retired && g_rd_p == nullptr && !yk_is_live(g_blk)) YK_REACH(); // retired before the reader looked: reclaimed, fine
    YK_REACH();
}
YK_HARNESS H_c07_lean_t1() { c07_lean<1>(); }
YK_HARNESS H_c07_lean_any() { c07_lean<0>(); }
