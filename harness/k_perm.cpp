// Kind K (leaf kernel) harnesses for C19: the real yakushima::permutation on the FULL 64-bit domain.
#include "kvs.h"
#include "yk.h"
using namespace yakushima;

namespace {
inline unsigned slot_at(std::uint64_t b, unsigned r) { return (b >> (4 * (r + 1))) & 15U; }
inline unsigned popcount15(unsigned m) {
    unsigned c = 0;
    for (unsigned i = 0; i < 15; ++i) c += (m >> i) & 1U;
    return c;
}
inline unsigned used_mask(std::uint64_t b) {
    unsigned n = b & 15U, m = 0;
    for (unsigned i = 0; i < 15; ++i)
        if (i < n) m |= 1U << slot_at(b, i);
    return m;
}
// "encodes a valid ordering": count n <= 15, n slot numbers < 15, pairwise distinct.
inline bool valid(std::uint64_t b) {
    unsigned n = b & 15U, seen = 0;
    for (unsigned i = 0; i < 15; ++i) {
        if (i < n) {
            unsigned s = slot_at(b, i);
            if (s >= 15) return false;
            if (seen & (1U << s)) return false;
            seen |= 1U << s;
        }
    }
    return true;
}
// the reference (independent of the implementation's shift arithmetic): positions as a list
inline std::uint64_t sym_valid_body(unsigned max_n) {
    std::uint64_t b = yk_nondet_u64();
    yk_assume(valid(b));
    yk_assume((b & 15U) <= max_n);
    return b;
}
} // namespace

// insert_rank: count+1, new slot at rank, earlier ranks unchanged, later ranks shifted by one, nothing else set
YK_HARNESS H_perm_insert() {
    std::uint64_t b = sym_valid_body(14);
    unsigned n = b & 15U;
    std::uint64_t rank = yk_nondet_u64(), pos = yk_nondet_u64();
    yk_assume(rank <= n);
    yk_assume(pos < 15);
    yk_assume(((used_mask(b) >> pos) & 1U) == 0); // pos is a free slot (what get_empty_slot promises)
    permutation p{b};
    yk_watch(&p);
    p.insert_rank(rank, pos);
    YK_ASSERT(yk_watch_store_count() == 1); // published as ONE store of the word: a reader sees old or new
    std::uint64_t w = p.get_body();
    YK_ASSERT((w & 15U) == n + 1);
    for (unsigned i = 0; i < 15; ++i) {
        if (i < rank) YK_ASSERT(slot_at(w, i) == slot_at(b, i));
        else if (i == rank) YK_ASSERT(slot_at(w, i) == pos);
        else if (i <= n) YK_ASSERT(slot_at(w, i) == slot_at(b, i - 1));
    }
    YK_ASSERT(valid(w));
    // accessors agree with the layout
    YK_ASSERT(p.get_cnk() == n + 1);
    std::uint64_t r = yk_nondet_u64();
    yk_assume(r <= n);
    YK_ASSERT(p.get_index_of_rank(r) == slot_at(w, (unsigned) r));
    YK_ASSERT(p.get_lowest_key_pos() == slot_at(w, 0));
    if (rank == 14 && n == 14) YK_REACH();
    if (rank == 0 && n == 0) YK_REACH();
    YK_REACH();
}

// delete_rank: count-1, the gap is closed, earlier ranks unchanged
YK_HARNESS H_perm_delete() {
    std::uint64_t b = sym_valid_body(15);
    unsigned n = b & 15U;
    yk_assume(n >= 1);
    std::uint64_t rank = yk_nondet_u64();
    yk_assume(rank < n);
    permutation p{b};
    yk_watch(&p);
    p.delete_rank(rank);
    YK_ASSERT(yk_watch_store_count() == 1);
    std::uint64_t w = p.get_body();
    YK_ASSERT((w & 15U) == n - 1);
    for (unsigned i = 0; i < 15; ++i) {
        if (i < rank) YK_ASSERT(slot_at(w, i) == slot_at(b, i));
        else if (i + 1 < n) YK_ASSERT(slot_at(w, i) == slot_at(b, i + 1));
    }
    YK_ASSERT(valid(w));
    if (rank == 14) YK_REACH();
    if (rank == 0 && n == 15) YK_REACH();
    YK_REACH();
}

// get_empty_slot: never a slot in use, < 15, for every valid ordering with n < 15 (the LOG(ERROR) site is an assertion)
YK_HARNESS H_perm_empty() {
    std::uint64_t b = sym_valid_body(14);
    unsigned n = b & 15U;
    // Pigeonhole (15 slot numbers, n <= 14 in use => one is free) is a counting fact that no SAT back end decides in
    // reasonable time (DESIGN 2.6); it is supplied as a witness: f is SOME free slot of b.  The claim is then
    // "for every valid ordering that has a free slot", which by pigeonhole is every valid ordering with n < 15.
    unsigned f = (unsigned) (yk_nondet_u64() & 15U);
    yk_assume(f < 15);
    for (unsigned i = 0; i < 15; ++i)
        if (i < n) yk_assume(slot_at(b, i) != f);
    permutation p{b};
    yk_watch(&p);
    std::size_t es = p.get_empty_slot();
    YK_ASSERT(yk_watch_store_count() == 0 && yk_watch_load_count() == 1); // one snapshot of the word, no write
    YK_ASSERT(es < 15);
    YK_ASSERT(((used_mask(b) >> es) & 1U) == 0);
    for (unsigned i = 0; i < 15; ++i)
        if (i < n) YK_ASSERT(slot_at(b, i) != es);
    if (n == 14) YK_REACH();
    YK_REACH();
}


// split_dest(num): count num, identity on ranks 0..num-1
YK_HARNESS H_perm_split_dest() {
    std::uint64_t junk = yk_nondet_u64();
    std::uint64_t num = yk_nondet_u64();
    yk_assume(num <= 15);
    permutation p{junk};
    yk_watch(&p);
    p.split_dest(num);
    YK_ASSERT(yk_watch_store_count() == 1);
    std::uint64_t w = p.get_body();
    YK_ASSERT((w & 15U) == num);
    for (unsigned i = 0; i < 15; ++i)
        if (i < num) YK_ASSERT(slot_at(w, i) == i);
    YK_ASSERT(valid(w));
    if (num == 15) YK_REACH();
    if (num == 8) YK_REACH();
    YK_REACH();
}

// set_cnk changes only the count; init gives the empty ordering
YK_HARNESS H_perm_set_cnk_init() {
    std::uint64_t b = yk_nondet_u64();
    std::uint8_t c = yk_nondet_u8();
    yk_assume(c <= 15);
    permutation p{b};
    yk_watch(&p);
    p.set_cnk(c);
    YK_ASSERT(yk_watch_store_count() == 1);
    YK_ASSERT(p.get_body() == ((b & ~15ULL) | c));
    p.init();
    YK_ASSERT(p.get_body() == 0);
    YK_ASSERT(p.get_cnk() == 0);
    YK_REACH();
}
