// Kind N harnesses on shape T1(n <= N): one root border node with symbolic contents; ONE real API call.
#include "builder.h"
using namespace yakushima;
using namespace ykb;
#ifndef NN
#define NN 3
#endif
#ifndef SYM_SLOTS
#define SYM_SLOTS true
#endif

template<int FIXN> static inline void H_t1_get_body() {
    border_state<NN> st;
    build_border<NN>(st, true, false, SYM_SLOTS, FIXN);
    tree_instance ti;
    ti.store_root_ptr(st.node);
    sym_key k;
    make_key<8>(k);
    std::uint64_t qs;
    unsigned ql;
    key_layer(k.b, k.len, 0, qs, ql);
    int found = -1;
    for (unsigned i = 0; i < NN; ++i)
        if (i < st.n && st.e[i].slice == qs && st.e[i].len == ql) found = (int) i;
    std::pair<char*, std::size_t> out{nullptr, 0};
    std::pair<node_version64_body, node_version64*> cv{};
    status rc = get<char>(&ti, std::string_view(reinterpret_cast<char*>(k.b), k.len), out, &cv);
    if (found >= 0) {
        YK_ASSERT(rc == status::OK);
        YK_ASSERT(out.second == 1);
        YK_ASSERT(out.first == static_cast<char*>(value::get_body(st.e[found].val)));
        YK_ASSERT((unsigned char) *out.first == st.e[found].vbyte);
        YK_REACH();
    } else {
        YK_ASSERT(rc == status::WARN_NOT_EXIST);
        YK_ASSERT(cv.second == st.node->get_version_ptr());
        YK_ASSERT(cv.first == st.node->get_stable_version());
        YK_REACH();
    }
    YK_ASSERT(ri_border(st.node, true));
}

// remove on T1: status, RI(post), every other key untouched (probe), the value is RETIRED (not freed) with the
// caller's epoch, an emptied root stays as deleted root (T0d)
template<int FIXN> static inline void H_t1_remove_body() {
    border_state<NN> st;
    build_border<NN>(st, true, false, SYM_SLOTS, FIXN);
    tree_instance ti;
    ti.store_root_ptr(st.node);
    thread_info tinfo;
    Epoch ep = yk_nondet_u64();
    yk_assume(ep != 0);
    tinfo.set_begin_epoch(ep);
    sym_key k, q;
    make_key<8>(k);
    make_key<8>(q);
    std::uint64_t ks, qs;
    unsigned kl, ql;
    key_layer(k.b, k.len, 0, ks, kl);
    key_layer(q.b, q.len, 0, qs, ql);
    int found = ref_find(st, ks, kl);
    int qfound = ref_find(st, qs, ql);
    std::int64_t live0 = yk_live_allocs();
    yk_event_reset();
    status rc = remove(&tinfo, &ti, std::string_view(reinterpret_cast<char*>(k.b), k.len));
    YK_ASSERT(rc == (found >= 0 ? status::OK : status::OK_NOT_FOUND));
    YK_ASSERT(yk_live_allocs() == live0); // nothing is released (or allocated) by remove itself
    YK_ASSERT(ti.load_root_ptr() == st.node);
    YK_ASSERT(ri_border(st.node, true));
    YK_ASSERT(st.node->get_permutation_cnk() == (found >= 0 ? st.n - 1 : st.n));
    if (found >= 0) {
        auto [blk, blk_len, blk_al] = value::get_gc_info(st.e[found].val);
        YK_ASSERT(yk_event_count() == 1);
        YK_ASSERT(yk_event_kind(0) == 0 && yk_event_ptr(0) == blk && yk_event_tag(0) == ep);
        YK_ASSERT(!value::need_delete(st.e[found].val));
        if (FIXN < 0 && st.n == 1) YK_REACH();
        if (found == 0) YK_REACH();
        YK_REACH();
    } else {
        YK_ASSERT(yk_event_count() == 0);
        YK_ASSERT(raw_version(st.node->get_version()) == raw_version(mk_version(true, true, false, YK_VINS0, YK_VSPLIT0)));
        YK_REACH();
    }
    // probe: the real get on the post-state agrees with the reference map
    std::pair<char*, std::size_t> out{nullptr, 0};
    status g = get<char>(&ti, std::string_view(reinterpret_cast<char*>(q.b), q.len), out);
    bool expect = qfound >= 0 && !(qs == ks && ql == kl);
    YK_ASSERT(g == (expect ? status::OK : status::WARN_NOT_EXIST));
    if (expect) {
        YK_ASSERT(out.first == static_cast<char*>(value::get_body(st.e[qfound].val)) && out.second == 1);
        YK_REACH();
    }
}

// put on T1 (no split: n < 15): upsert / unique-insert of a key of the root layer
template<int FIXN> static inline void H_t1_put_body() {
    border_state<NN> st;
    build_border<NN>(st, true, false, SYM_SLOTS, FIXN);
    tree_instance ti;
    ti.store_root_ptr(st.node);
    thread_info tinfo;
    Epoch ep = yk_nondet_u64();
    yk_assume(ep != 0);
    tinfo.set_begin_epoch(ep);
    sym_key k, q;
    make_key<8>(k);
    make_key<8>(q);
    std::uint64_t ks, qs;
    unsigned kl, ql;
    key_layer(k.b, k.len, 0, ks, kl);
    key_layer(q.b, q.len, 0, qs, ql);
    int found = ref_find(st, ks, kl);
    int qfound = ref_find(st, qs, ql);
    bool unique = yk_nondet_bool();
    char nv = (char) yk_nondet_u8();
    char* created = nullptr;
    inserted_node_info ini{nullptr, nullptr};
    node_version64_body v0 = st.node->get_stable_version();
    std::int64_t live0 = yk_live_allocs();
    yk_event_reset();
    status rc = put<char>(&tinfo, &ti, std::string_view(reinterpret_cast<char*>(k.b), k.len), &nv, unique, 1, &created,
                          static_cast<value_align_type>(1), &ini);
    node_version64_body v1 = st.node->get_stable_version();
    YK_ASSERT(ti.load_root_ptr() == st.node);
    YK_ASSERT(ri_border(st.node, true));
    if (found >= 0 && unique) {
        YK_ASSERT(rc == status::WARN_UNIQUE_RESTRICTION);
        YK_ASSERT(yk_live_allocs() == live0 && yk_event_count() == 0);
        YK_ASSERT(v0 == v1);
        YK_REACH();
    } else if (found >= 0) {
        YK_ASSERT(rc == status::OK);
        YK_ASSERT(yk_live_allocs() == live0 + 1); // new value allocated, old one retired (not freed)
        auto [blk, blk_len, blk_al] = value::get_gc_info(st.e[found].val);
        YK_ASSERT(yk_event_count() == 1 && yk_event_kind(0) == 0 && yk_event_ptr(0) == blk && yk_event_tag(0) == ep);
        YK_ASSERT(v0 == v1);                        // an overwrite changes no node version (C12)
        YK_ASSERT(ini.created_nvp == nullptr);
        YK_ASSERT(created != nullptr && *created == nv);
        YK_REACH();
    } else {
        YK_ASSERT(rc == status::OK);
        YK_ASSERT(yk_live_allocs() == live0 + 1 && yk_event_count() == 0);
        YK_ASSERT(st.node->get_permutation_cnk() == st.n + 1);
        YK_ASSERT(ini.modified_nvp == st.node->get_version_ptr() && ini.created_nvp == nullptr); // C12
        YK_ASSERT(v0 != v1 && v1.get_vinsert_delete() == ((v0.get_vinsert_delete() + 1U) & M29) && v1.get_vsplit() == v0.get_vsplit());
        YK_ASSERT(created != nullptr && *created == nv);
        if (FIXN < 0 && st.n == NN) YK_REACH();
        YK_REACH();
    }
    std::pair<char*, std::size_t> out{nullptr, 0};
    status g = get<char>(&ti, std::string_view(reinterpret_cast<char*>(q.b), q.len), out);
    bool same = (qs == ks && ql == kl);
    if (same && !(found >= 0 && unique)) {
        YK_ASSERT(g == status::OK && out.first == created && out.second == 1 && *out.first == nv);
        YK_REACH();
    } else {
        YK_ASSERT(g == (qfound >= 0 ? status::OK : status::WARN_NOT_EXIST));
        if (qfound >= 0) {
            YK_ASSERT(out.first == static_cast<char*>(value::get_body(st.e[qfound].val)) && out.second == 1);
            YK_ASSERT((unsigned char) *out.first == st.e[qfound].vbyte);
            YK_REACH();
        }
    }
}

// entry points: one per concrete entry count (and one with the count symbolic for the thorough tier)
#define YK_INST(name, sfx, n) YK_HARNESS name##sfx() { name##_body<n>(); }
YK_INST(H_t1_get, _n1, 1) YK_INST(H_t1_get, _n2, 2) YK_INST(H_t1_get, _n3, 3) YK_INST(H_t1_get, _sym, -1)
YK_INST(H_t1_remove, _n1, 1) YK_INST(H_t1_remove, _n2, 2) YK_INST(H_t1_remove, _n3, 3) YK_INST(H_t1_remove, _sym, -1)
YK_INST(H_t1_put, _n1, 1) YK_INST(H_t1_put, _n2, 2) YK_INST(H_t1_put, _n3, 3) YK_INST(H_t1_put, _sym, -1)
