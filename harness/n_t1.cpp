// Kind N harnesses on shapes T0 (null root), T0d (empty deleted root) and T1(n) (one root border with n entries,
// n CONCRETE per entry point, contents symbolic): ONE real API call from an arbitrary valid state of the shape, then
// the post-state is compared with the reference map through a symbolic probe key and the representation invariant.
#include "builder.h"
using namespace yakushima;
using namespace ykb;

namespace {
struct keys2 {
    sym_key k, q;
    std::uint64_t ks, qs;
    unsigned kl, ql;
};
template<unsigned KMAX>
inline void make_keys(keys2& x) {
    make_key<KMAX>(x.k);
    make_key<KMAX>(x.q);
    key_layer(x.k.b, x.k.len, 0, x.ks, x.kl);
    key_layer(x.q.b, x.q.len, 0, x.qs, x.ql);
}

// ---------------------------------------------------------------------------------------------- get
template<unsigned N, unsigned MAP>
inline void t1_get() {
    bstate<N> st;
    build_border<N>(st, true, MAP);
    tree_instance ti;
    ti.store_root_ptr(st.node);
    keys2 x;
    make_keys<8>(x);
    int found = ref_find(st, x.ks, x.kl);
    std::pair<char*, std::size_t> out{nullptr, 0};
    std::pair<node_version64_body, node_version64*> cv{};
    status rc = get<char>(&ti, sv(x.k), out, &cv);
    if (found >= 0) {
        YK_ASSERT(rc == status::OK);
        YK_ASSERT(out.second == 1);
        YK_ASSERT(out.first == static_cast<char*>(value::get_body(st.e[found].val)));
        YK_ASSERT((unsigned char) *out.first == st.e[found].vbyte);
        YK_REACH();
    } else {
        YK_ASSERT(rc == status::WARN_NOT_EXIST);
        YK_ASSERT(cv.second == st.node->get_version_ptr()); // C05: a miss reports the node it checked ...
        YK_ASSERT(cv.first == st.node->get_stable_version()); // ... with its current stable version
        YK_REACH();
    }
    YK_ASSERT(ri_border(st.node, true, nullptr));
}

// ---------------------------------------------------------------------------------------------- remove
template<unsigned N, unsigned MAP>
inline void t1_remove() {
    bstate<N> st;
    build_border<N>(st, true, MAP);
    tree_instance ti;
    ti.store_root_ptr(st.node);
    session s;
    open_session(s);
    keys2 x;
    make_keys<8>(x);
    int found = ref_find(st, x.ks, x.kl);
    int qfound = ref_find(st, x.qs, x.ql);
    std::int64_t live0 = yk_live_allocs();
    yk_event_reset();
    status rc = remove(s.tok(), &ti, sv(x.k));
    YK_ASSERT(rc == (found >= 0 ? status::OK : status::OK_NOT_FOUND));
    YK_ASSERT(yk_live_allocs() == live0); // remove itself releases (and allocates) nothing: C07
    YK_ASSERT(ti.load_root_ptr() == st.node); // an emptied root stays, as deleted root
    unsigned cnt = 99;
    YK_ASSERT(ri_border(st.node, true, nullptr, &cnt));
    YK_ASSERT(cnt == (found >= 0 ? N - 1 : N));
    if (found >= 0) {
        auto [blk, blk_len, blk_al] = value::get_gc_info(st.e[found].val);
        YK_ASSERT(retired_once(blk, s.ep));
        YK_ASSERT(!value::need_delete(st.e[found].val));
        if (found == 0) YK_REACH();
        YK_REACH();
    } else {
        YK_ASSERT(yk_event_count() == 0);
        YK_ASSERT(raw_version(st.node->get_version()) == raw_version(mk_version(true, true, false, YK_VINS0, YK_VSPLIT0)));
        YK_REACH();
    }
    std::pair<char*, std::size_t> out{nullptr, 0};
    status g = get<char>(&ti, sv(x.q), out);
    bool expect = qfound >= 0 && !(x.qs == x.ks && x.ql == x.kl);
    YK_ASSERT(g == (expect ? status::OK : status::WARN_NOT_EXIST));
    if (expect) {
        YK_ASSERT(out.first == static_cast<char*>(value::get_body(st.e[qfound].val)) && out.second == 1);
        YK_REACH();
    }
}

// ---------------------------------------------------------------------------------------------- put (no split, N < 15)
template<unsigned N, unsigned MAP>
inline void t1_put() {
    bstate<N> st;
    build_border<N>(st, true, MAP);
    tree_instance ti;
    ti.store_root_ptr(st.node);
    session s;
    open_session(s);
    keys2 x;
    make_keys<8>(x);
    int found = ref_find(st, x.ks, x.kl);
    int qfound = ref_find(st, x.qs, x.ql);
    bool unique = yk_nondet_bool();
    char nv = (char) yk_nondet_u8();
    char* created = nullptr;
    inserted_node_info ini{nullptr, nullptr};
    node_version64_body v0 = st.node->get_stable_version();
    std::int64_t live0 = yk_live_allocs();
    yk_event_reset();
    status rc = put<char>(s.tok(), &ti, sv(x.k), &nv, unique, 1, &created, static_cast<value_align_type>(1), &ini);
    node_version64_body v1 = st.node->get_stable_version();
    YK_ASSERT(ti.load_root_ptr() == st.node);
    unsigned cnt = 99;
    YK_ASSERT(ri_border(st.node, true, nullptr, &cnt));
    if (found >= 0 && unique) {
        YK_ASSERT(rc == status::WARN_UNIQUE_RESTRICTION);
        YK_ASSERT(yk_live_allocs() == live0 && yk_event_count() == 0); // nothing allocated speculatively is left behind: C11
        YK_ASSERT(v0 == v1 && cnt == N);
        YK_REACH();
    } else if (found >= 0) {
        YK_ASSERT(rc == status::OK && cnt == N);
        YK_ASSERT(yk_live_allocs() == live0 + 1); // new value allocated, old one retired (not freed)
        auto [blk, blk_len, blk_al] = value::get_gc_info(st.e[found].val);
        YK_ASSERT(retired_once(blk, s.ep));
        YK_ASSERT(v0 == v1);                  // an overwrite changes no node version: C12
        YK_ASSERT(ini.created_nvp == nullptr);
        YK_ASSERT(created != nullptr && *created == nv);
        YK_REACH();
    } else {
        YK_ASSERT(rc == status::OK && cnt == N + 1);
        YK_ASSERT(yk_live_allocs() == live0 + 1 && yk_event_count() == 0);
        YK_ASSERT(ini.modified_nvp == st.node->get_version_ptr() && ini.created_nvp == nullptr); // C12
        YK_ASSERT(v0 != v1 && v1.get_vinsert_delete() == ((v0.get_vinsert_delete() + 1U) & M29) && v1.get_vsplit() == v0.get_vsplit());
        YK_ASSERT(created != nullptr && *created == nv);
        YK_REACH();
    }
    std::pair<char*, std::size_t> out{nullptr, 0};
    status g = get<char>(&ti, sv(x.q), out);
    bool same = (x.qs == x.ks && x.ql == x.kl);
    if (same && !(found >= 0 && unique)) {
        YK_ASSERT(g == status::OK && out.first == created && out.second == 1 && *out.first == nv);
        YK_REACH();
    } else {
        YK_ASSERT(g == (qfound >= 0 ? status::OK : status::WARN_NOT_EXIST));
        if (qfound >= 0) {
            YK_ASSERT(out.first == static_cast<char*>(value::get_body(st.e[qfound].val)) && out.second == 1);
            YK_ASSERT((unsigned char) *out.first == st.e[qfound].vbyte);
            YK_REACH();
        }
    }
}

// ---------------------------------------------------------------------------------------------- T0 / T0d
// first insert into a storage without root (T0) or with the empty deleted root that removes leave behind (T0d):
// "remove everything and re-insert behaves like fresh"
template<bool DELETED_ROOT>
inline void t0_put() {
    tree_instance ti;
    border_node* old_root = nullptr;
    if (DELETED_ROOT) {
        bstate<0> st;
        build_border<0>(st, true, 0);
        old_root = st.node;
        ti.store_root_ptr(old_root);
    }
    session s;
    open_session(s);
    keys2 x;
    make_keys<8>(x);
    bool unique = yk_nondet_bool();
    char nv = (char) yk_nondet_u8();
    char* created = nullptr;
    inserted_node_info ini{nullptr, nullptr};
    std::pair<char*, std::size_t> out{nullptr, 0};
    YK_ASSERT(get<char>(&ti, sv(x.q), out) == status::WARN_NOT_EXIST); // empty before
    YK_ASSERT(remove(s.tok(), &ti, sv(x.q)) == (DELETED_ROOT ? status::OK_NOT_FOUND : status::OK_ROOT_IS_NULL));
    status rc = put<char>(s.tok(), &ti, sv(x.k), &nv, unique, 1, &created, static_cast<value_align_type>(1), &ini);
    YK_ASSERT(rc == status::OK);
    base_node* root = ti.load_root_ptr();
    YK_ASSERT(root != nullptr && root->get_version_border());
    if (DELETED_ROOT) YK_ASSERT(root == old_root);
    unsigned cnt = 99;
    YK_ASSERT(ri_border(static_cast<border_node*>(root), true, nullptr, &cnt) && cnt == 1);
    YK_ASSERT(ini.modified_nvp == root->get_version_ptr() && ini.created_nvp == nullptr);
    YK_ASSERT(created != nullptr && *created == nv);
    status g = get<char>(&ti, sv(x.q), out);
    if (x.qs == x.ks && x.ql == x.kl) {
        YK_ASSERT(g == status::OK && out.first == created && out.second == 1);
        YK_REACH();
    } else {
        YK_ASSERT(g == status::WARN_NOT_EXIST);
        YK_REACH();
    }
}

// ---------------------------------------------------------------------------------------------- T1(15): border split
// put of an absent key into a FULL root border: the node splits, a new interior root appears.  Map semantics through
// the probe key (C02), exactly the old border (modified) and the new border (created) change version (C12), light
// structural checks (C08); the two neighbours of the split point (ranks 7, 8) are symbolic, the rest concrete fillers.
// PART selects which group of assertions this entry point carries (the groups are separate queries).
template<unsigned MAP, unsigned SYMMASK, int PART, int LINK = -1>
inline void t1_put_split() {
    constexpr unsigned N = 15;
    bstate<N> st;
    build_border<N>(st, true, MAP, LINK, true, SYMMASK);
    bstate<1> sub;
    if (LINK >= 0) { // entry LINK is a next-layer link (length class 9): the split point may fall right before / after it
        build_border<1>(sub, true, 0);
        attach_layer(st, (unsigned) LINK, sub.node);
    }
    tree_instance ti;
    ti.store_root_ptr(st.node);
    session s;
    open_session(s);
    keys2 x;
    make_keys<8>(x);
    int found = ref_find(st, x.ks, x.kl);
    int qfound = ref_find(st, x.qs, x.ql);
    yk_assume(found < 0); // the overwrite / unique cases do not depend on fullness (covered at n <= 3)
    char nv = (char) yk_nondet_u8();
    char* created = nullptr;
    inserted_node_info ini{nullptr, nullptr};
    node_version64_body v0 = st.node->get_stable_version();
    status rc = put<char>(s.tok(), &ti, sv(x.k), &nv, false, 1, &created, static_cast<value_align_type>(1), &ini);
    YK_ASSERT(rc == status::OK);
    base_node* root = ti.load_root_ptr();
    YK_ASSERT(root != nullptr && root != st.node && !root->get_version_border());
    auto* in = static_cast<interior_node*>(root);
    auto* nb = static_cast<border_node*>(in->get_child_at(1));
    if (PART == 0) { // structure + C12
        YK_ASSERT(in->get_n_keys() == 1 && in->get_child_at(0) == st.node && nb != nullptr && in->get_child_at(2) == nullptr);
        YK_ASSERT(in->get_version_root() && in->get_parent() == nullptr);
        node_version64_body vi = in->get_version();
        YK_ASSERT(ri_version_clean(vi) && !vi.get_deleted());
        YK_ASSERT(st.node->get_parent() == in && nb->get_parent() == in);
        YK_ASSERT(!st.node->get_version_root() && !nb->get_version_root());
        YK_ASSERT(ri_version_clean(st.node->get_version()) && ri_version_clean(nb->get_version()));
        YK_ASSERT(st.node->get_next() == nb && nb->get_prev() == st.node && nb->get_next() == nullptr && st.node->get_prev() == nullptr);
        YK_ASSERT(st.node->get_permutation_cnk() + nb->get_permutation_cnk() == 16);
        // the separator is the first key of the right node and bounds both sides
        std::size_t r0 = nb->get_permutation().get_index_of_rank(0);
        YK_ASSERT(in->get_key_slice_at(0) == nb->get_key_slice_at(r0) && in->get_key_length_at(0) == nb->get_key_length_at(r0));
        std::size_t ll = st.node->get_permutation().get_index_of_rank(st.node->get_permutation_cnk() - 1U);
        YK_ASSERT(ref_lt(st.node->get_key_slice_at(ll), st.node->get_key_length_at(ll), in->get_key_slice_at(0), in->get_key_length_at(0)));
        // C12
        YK_ASSERT(ini.modified_nvp == st.node->get_version_ptr() && ini.created_nvp == nb->get_version_ptr());
        node_version64_body v1 = st.node->get_stable_version();
        YK_ASSERT(v1.get_vsplit() == ((v0.get_vsplit() + 1U) & M29));
        YK_ASSERT(created != nullptr && *created == nv);
        YK_REACH();
    } else { // map semantics through the probe key
        std::pair<char*, std::size_t> out{nullptr, 0};
        status g = get<char>(&ti, sv(x.q), out);
        if (x.qs == x.ks && x.ql == x.kl) {
            YK_ASSERT(g == status::OK && out.first == created && out.second == 1);
            YK_REACH();
        } else {
            YK_ASSERT(g == (qfound >= 0 ? status::OK : status::WARN_NOT_EXIST));
            if (qfound >= 0) {
                YK_ASSERT(out.first == static_cast<char*>(value::get_body(st.e[qfound].val)) && out.second == 1);
                YK_REACH();
            }
        }
        // the new key sits exactly at the split point with the same slice as its right neighbour
        if (ref_lt(st.e[7].slice, st.e[7].len, x.ks, x.kl) && ref_lt(x.ks, x.kl, st.e[8].slice, st.e[8].len) && st.e[8].slice == x.ks &&
            x.qs == x.ks && x.ql == x.kl)
            YK_REACH();
    }
}
} // namespace

#define YK_ENTRY(name, call) YK_HARNESS name() { call; }
YK_ENTRY(H_t1_get_n1, (t1_get<1, 0>()))
YK_ENTRY(H_t1_get_n2, (t1_get<2, 1>()))
YK_ENTRY(H_t1_get_n3, (t1_get<3, 0>()))
YK_ENTRY(H_t1_get_n4s, (t1_get<4, 1>()))
YK_ENTRY(H_t1_remove_n1, (t1_remove<1, 1>()))
YK_ENTRY(H_t1_remove_n2, (t1_remove<2, 0>()))
YK_ENTRY(H_t1_remove_n3, (t1_remove<3, 1>()))
YK_ENTRY(H_t1_put_n1, (t1_put<1, 0>()))
YK_ENTRY(H_t1_put_n2, (t1_put<2, 1>()))
YK_ENTRY(H_t1_put_n3, (t1_put<3, 0>()))
YK_ENTRY(H_t1_put_n14, (t1_put<14, 1>()))
YK_ENTRY(H_t0_put, (t0_put<false>()))
YK_ENTRY(H_t0d_put, (t0_put<true>()))
// symbolic entries: the two neighbours of the split point (ranks 7, 8); the rest concrete fillers
YK_ENTRY(H_t1_split_struct, (t1_put_split<0, 0x0180, 0>()))
YK_ENTRY(H_t1_split_struct_link, (t1_put_split<0, 0x0180, 0, 8>()))
YK_ENTRY(H_t1_split_probe, (t1_put_split<0, 0x0180, 1>()))
YK_ENTRY(H_t1_split_probe_scr, (t1_put_split<1, 0x0180, 1>()))

// ---------------------------------------------------------------------------------------------- C05 (get part)
// a get that reported WARN_NOT_EXIST with a checked version, followed by the real insert of that absent key: the
// recorded (version, node) pair is stale afterwards (and the pair was never empty)
namespace {
template<unsigned N, unsigned MAP>
inline void c05_get_miss_then_put() {
    bstate<N> st;
    build_border<N>(st, true, MAP);
    tree_instance ti;
    ti.store_root_ptr(st.node);
    session s;
    open_session(s);
    keys2 x;
    make_keys<8>(x);
    yk_assume(ref_find(st, x.ks, x.kl) < 0);
    std::pair<char*, std::size_t> out{nullptr, 0};
    std::pair<node_version64_body, node_version64*> cv{};
    YK_ASSERT(get<char>(&ti, sv(x.k), out, &cv) == status::WARN_NOT_EXIST);
    YK_ASSERT(cv.second != nullptr);
    char nv = 'n';
    YK_ASSERT(put<char>(s.tok(), &ti, sv(x.k), &nv, true, 1, nullptr, static_cast<value_align_type>(1), nullptr) == status::OK);
    YK_ASSERT(cv.second->get_stable_version() != cv.first); // the insert is detected by re-validating the pair
    YK_REACH();
}
} // namespace
YK_ENTRY(H_c05_get_miss_put_n1, (c05_get_miss_then_put<1, 0>()))
YK_ENTRY(H_c05_get_miss_put_n3, (c05_get_miss_then_put<3, 1>()))
YK_HARNESS H_c05_get_miss_put_t0d() {
    bstate<0> st;
    build_border<0>(st, true, 0);
    tree_instance ti;
    ti.store_root_ptr(st.node);
    session s;
    open_session(s);
    keys2 x;
    make_keys<8>(x);
    std::pair<char*, std::size_t> out{nullptr, 0};
    std::pair<node_version64_body, node_version64*> cv{};
    YK_ASSERT(get<char>(&ti, sv(x.k), out, &cv) == status::WARN_NOT_EXIST);
    YK_ASSERT(cv.second != nullptr); // never empty for an existing storage, even when the root is the empty deleted border
    char nv = 'n';
    YK_ASSERT(put<char>(s.tok(), &ti, sv(x.k), &nv, true, 1, nullptr, static_cast<value_align_type>(1), nullptr) == status::OK);
    YK_ASSERT(cv.second->get_stable_version() != cv.first);
    YK_REACH();
}
