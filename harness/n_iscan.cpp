// Kind N harnesses for the cursor API (C10, first sentence): iscan_open / iscan_next until OK_SCAN_END / iscan_close through
// the public by-name API, on directly built shapes with symbolic contents and a symbolic interval, in both directions.
#include "builder.h"
using namespace yakushima;
using namespace ykb;

#ifndef YK_EPB
#define YK_EPB 10
#endif

namespace {
constexpr unsigned FKB = 16;
struct went {
    unsigned char b[FKB];
    unsigned len;
    value* val;
};
inline int cmp_bytes(const unsigned char* a, unsigned al, const unsigned char* b, unsigned bl) {
    for (unsigned i = 0; i < FKB; ++i) {
        if (i >= al || i >= bl) break;
        if (a[i] != b[i]) return a[i] < b[i] ? -1 : 1;
    }
    return al < bl ? -1 : (al > bl ? 1 : 0);
}
inline void slice_bytes(std::uint64_t slice, unsigned n, unsigned char* out) {
    for (unsigned i = 0; i < 8; ++i)
        if (i < n) out[i] = (unsigned char) (slice >> (8 * i));
}
inline void walk_entry(const entry& e, went& x, const unsigned char* prefix, unsigned plen) {
    for (unsigned j = 0; j < 8; ++j)
        if (j < plen) x.b[j] = prefix[j];
    slice_bytes(e.slice, e.len, x.b + plen);
    x.len = plen + e.len;
    x.val = e.val;
}
struct request {
    sym_key l, r;
    scan_endpoint le, re;
    bool rtl;
};
inline scan_endpoint endpoint_of(unsigned e) { return e == 0 ? scan_endpoint::EXCLUSIVE : (e == 1 ? scan_endpoint::INCLUSIVE : scan_endpoint::INF); }
inline void mk_request(request& q, unsigned RTL) {
    make_key<YK_EPB>(q.l);
    make_key<YK_EPB>(q.r);
    unsigned a = yk_nondet_u8(), b = yk_nondet_u8();
    yk_assume(a < 3 && b < 3);
    q.le = endpoint_of(a);
    q.re = endpoint_of(b);
    q.rtl = RTL == 2 ? (bool) yk_nondet_bool() : RTL == 1;
}
// the invalid ranges documented for scan (kvs.h): the cursor API rejects exactly these
inline bool ref_bad_usage(const request& q) {
    bool fin = q.le != scan_endpoint::INF && q.re != scan_endpoint::INF;
    int c = cmp_bytes(q.l.b, (unsigned) q.l.len, q.r.b, (unsigned) q.r.len);
    if (fin && c > 0) return true;
    if (fin && c == 0 && (q.le == scan_endpoint::EXCLUSIVE || q.re == scan_endpoint::EXCLUSIVE)) return true;
    if (q.re == scan_endpoint::EXCLUSIVE && q.r.len == 0) return true;
    return false;
}
inline bool ref_in_range(const went& x, const request& q) {
    if (q.le != scan_endpoint::INF) {
        int c = cmp_bytes(x.b, x.len, q.l.b, (unsigned) q.l.len);
        if (c < 0 || (c == 0 && q.le == scan_endpoint::EXCLUSIVE)) return false;
    }
    if (q.re != scan_endpoint::INF) {
        int c = cmp_bytes(x.b, x.len, q.r.b, (unsigned) q.r.len);
        if (c > 0 || (c == 0 && q.re == scan_endpoint::EXCLUSIVE)) return false;
    }
    return true;
}
inline bool same_key(const std::string& s, const went& x) {
    if (s.size() != x.len) return false;
    for (unsigned i = 0; i < FKB; ++i)
        if (i < x.len && (unsigned char) s[i] != x.b[i]) return false;
    return true;
}
// the storages tree with ONE storage named "s" whose root is `data_root` (what create_storage + puts leave behind)
inline tree_instance* mk_storage_s(base_node* data_root) {
    auto* sb = new border_node();
    tree_instance proto;
    value* v = value::create_value<false>(&proto, sizeof(tree_instance), static_cast<value_align_type>(alignof(tree_instance)));
    sb->set_key_slice_at(0, (key_slice_type) 's');
    sb->set_key_length_at(0, 1);
    sb->set_lv_value(0, v, nullptr);
    sb->get_permutation().set_body(1);
    sb->set_version(mk_version(true, true, false, YK_VINS0, YK_VSPLIT0));
    storage::get_storages()->store_root_ptr(sb);
    auto* ti = static_cast<tree_instance*>(value::get_body(v));
    ti->store_root_ptr(data_root);
    return ti;
}
unsigned g_cb_n;
node_version64* g_cb_p[8];
node_version64_body g_cb_v[8];
inline bool collect_cb(node_version64* p, node_version64_body v) {
    if (g_cb_n < 8) {
        g_cb_p[g_cb_n] = p;
        g_cb_v[g_cb_n] = v;
    }
    ++g_cb_n;
    return false;
}

// drives the cursor to the end and compares with the reference enumeration.  W entries, ascending in w.
template<unsigned W>
inline void run_iscan(const went* w, const request& q, std::string_view name, bool storage_exists) {
    iscan_context* ctx = nullptr;
    void* val = nullptr;
    g_cb_n = 0;
    std::int64_t live0 = yk_live_allocs();
    status rc = iscan_open(name, sv(q.l), q.le, sv(q.r), q.re, q.rtl, false, ctx, val, collect_cb);
    if (ref_bad_usage(q)) {
        YK_ASSERT(rc == status::ERR_BAD_USAGE && ctx == nullptr);
        YK_REACH();
        return;
    }
    if (!storage_exists) {
        YK_ASSERT(rc == status::WARN_STORAGE_NOT_EXIST && ctx == nullptr);
        YK_REACH();
        return;
    }
    bool in[W > 0 ? W : 1];
    unsigned cnt = 0;
    for (unsigned i = 0; i < W; ++i) {
        in[i] = ref_in_range(w[i], q);
        if (in[i]) ++cnt;
    }
    // step k of the cursor must deliver the k-th in-range entry (ascending; descending for right_to_left)
    unsigned produced = 0;
    for (unsigned step = 0; step < W + 1; ++step) {
        // index of the entry expected at this step
        int want = -1;
        unsigned seen = 0;
        for (unsigned j = 0; j < W; ++j) {
            unsigned i = q.rtl ? W - 1 - j : j;
            if (in[i]) {
                if (seen == step) want = (int) i;
                ++seen;
            }
        }
        if (want < 0) {
            YK_ASSERT(rc == status::OK_SCAN_END);
            break;
        }
        YK_ASSERT(rc == status::OK);
        if (rc != status::OK) break;
        YK_ASSERT(val == value::get_body(w[want].val));       // the entry's current value
        YK_ASSERT(same_key(ctx->full_key(), w[want]));        // the context reports the entry's full key
        ++produced;
        rc = iscan_next(ctx, val, collect_cb);
    }
    YK_ASSERT(produced == cnt);
    YK_ASSERT(g_cb_n >= 1); // C05/C06: the callback set is never empty for an existing storage
    YK_ASSERT(iscan_close(ctx) == status::OK && ctx == nullptr);
    YK_ASSERT(yk_live_allocs() == live0); // C11: the cursor object is released
    if (cnt == W && W > 0) YK_REACH();
    if (cnt > 0 && cnt < W) YK_REACH();
    if (cnt == 0) YK_REACH();
}

template<unsigned N, unsigned MAP, unsigned RTL>
inline void t1_iscan() {
    bstate<N> st;
    build_border<N>(st, true, MAP);
    mk_storage_s(st.node);
    went w[N];
    for (unsigned i = 0; i < N; ++i) walk_entry(st.e[i], w[i], nullptr, 0);
    request q;
    mk_request(q, RTL);
    run_iscan<N>(w, q, "s", true);
    YK_ASSERT(ri_border(st.node, true, nullptr));
}
inline void missing_storage_iscan() {
    bstate<1> st;
    build_border<1>(st, true, 0);
    mk_storage_s(st.node);
    went w[1];
    walk_entry(st.e[0], w[0], nullptr, 0);
    request q;
    mk_request(q, 2);
    run_iscan<1>(w, q, "t", false);
}
template<unsigned A, unsigned B, unsigned RTL>
inline void t3_iscan() {
    t3state<A, B> t;
    build_t3(t);
    mk_storage_s(t.root);
    went w[A + B];
    for (unsigned i = 0; i < A; ++i) walk_entry(t.a.e[i], w[i], nullptr, 0);
    for (unsigned i = 0; i < B; ++i) walk_entry(t.b.e[i], w[A + i], nullptr, 0);
    request q;
    mk_request(q, RTL);
    run_iscan<A + B>(w, q, "s", true);
}
template<unsigned A, unsigned L, unsigned M, unsigned RTL>
inline void t2_iscan() {
    bstate<A> top;
    bstate<M> sub;
    build_border<A>(top, true, 0, (int) L);
    build_border<M>(sub, true, 0);
    attach_layer(top, L, sub.node);
    mk_storage_s(top.node);
    went w[A - 1 + M];
    unsigned char pre[8];
    slice_bytes(top.e[L].slice, 8, pre);
    unsigned nw = 0;
    for (unsigned i = 0; i < A; ++i) {
        if (i == L) {
            for (unsigned j = 0; j < M; ++j) walk_entry(sub.e[j], w[nw++], pre, 8);
        } else {
            walk_entry(top.e[i], w[nw++], nullptr, 0);
        }
    }
    request q;
    mk_request(q, RTL);
    run_iscan<A - 1 + M>(w, q, "s", true);
}
} // namespace

#define YK_ENTRY(name, call) YK_HARNESS name() { call; }
YK_ENTRY(H_iscan_t1_n1, (t1_iscan<1, 0, 2>()))
YK_ENTRY(H_iscan_t1_n2_fwd, (t1_iscan<2, 1, 0>()))
YK_ENTRY(H_iscan_t1_n2_rev, (t1_iscan<2, 1, 1>()))
YK_ENTRY(H_iscan_t1_n3_fwd, (t1_iscan<3, 0, 0>()))
YK_ENTRY(H_iscan_t1_n3_rev, (t1_iscan<3, 0, 1>()))
YK_ENTRY(H_iscan_missing_storage, (missing_storage_iscan()))
YK_ENTRY(H_iscan_t3_11_fwd, (t3_iscan<1, 1, 0>()))
YK_ENTRY(H_iscan_t3_11_rev, (t3_iscan<1, 1, 1>()))
YK_ENTRY(H_iscan_t2_a1m1_fwd, (t2_iscan<1, 0, 1, 0>()))
YK_ENTRY(H_iscan_t2_a1m1_rev, (t2_iscan<1, 0, 1, 1>()))
// development: the smallest cursor run (full interval, forward, T1(1))
YK_HARNESS H_iscan_min() {
    bstate<1> st;
    build_border<1>(st, true, 0);
    mk_storage_s(st.node);
    iscan_context* ctx = nullptr;
    void* val = nullptr;
    g_cb_n = 0;
    status rc = iscan_open("s", "", scan_endpoint::INF, "", scan_endpoint::INF, false, false, ctx, val, collect_cb);
    YK_ASSERT(rc == status::OK);
    YK_ASSERT(val == value::get_body(st.e[0].val));
    rc = iscan_next(ctx, val, collect_cb);
    YK_ASSERT(rc == status::OK_SCAN_END);
    iscan_close(ctx);
    YK_REACH();
}
