// Kind S harnesses for C17 (concurrent half): the real node_version64 under ALL interleavings (at hook granularity) of
// two lockers and one stable-version reader, within the context bound.
#include "kvs.h"
#include "yk.h"
#include <cstring>
using namespace yakushima;

namespace {
node_version64 g_v;
int g_owner = 0;            // ghost: who is inside the critical section
unsigned g_flagged_done = 0; // ghost: unlocks that completed with an insert or split flagged
bool g_ins[2], g_spl[2];
std::uint64_t g_s1, g_s2;
unsigned g_c1, g_c2;
bool g_reader_done = false;

inline std::uint64_t raw(node_version64_body b) {
    std::uint64_t w = 0;
    std::memcpy(&w, &b, 8);
    return w;
}
inline void locker(int id) {
    g_v.lock();
    YK_ASSERT(g_owner == 0); // mutual exclusion
    g_owner = id;
    if (g_ins[id - 1]) g_v.atomic_set_inserting_deleting(true);
    if (g_spl[id - 1]) g_v.atomic_set_splitting(true);
    YK_ASSERT(g_owner == id);
    g_owner = 0;
    g_v.unlock();
    if (g_ins[id - 1] || g_spl[id - 1]) ++g_flagged_done; // no hook between the unlocking CAS and this ghost update
}
} // namespace

extern "C" __attribute__((used)) void T_lock_a() { locker(1); }
extern "C" __attribute__((used)) void T_lock_b() { locker(2); }
// a thread that flips root / deleted through the public atomic setters WITHOUT holding the lock (as interior collapse
// does for the promoted sibling): unlock / lock / the other setters must leave those fields untouched
bool g_set_root, g_set_deleted;
extern "C" __attribute__((used)) void T_flagger() {
    g_v.atomic_set_root(g_set_root);
    g_v.atomic_set_deleted(g_set_deleted);
}
extern "C" __attribute__((used)) void T_reader() {
    node_version64_body s1 = g_v.get_stable_version();
    g_c1 = g_flagged_done; // sampled atomically with the version read (no hook in between)
    YK_ASSERT(!s1.get_locked() && !s1.get_inserting_deleting() && !s1.get_splitting());
    node_version64_body s2 = g_v.get_stable_version();
    g_c2 = g_flagged_done;
    YK_ASSERT(!s2.get_locked() && !s2.get_inserting_deleting() && !s2.get_splitting());
    g_s1 = raw(s1);
    g_s2 = raw(s2);
    // equal stable versions => no insert/split unlock completed in between
    if (g_s1 == g_s2) YK_ASSERT(g_c1 == g_c2);
    g_reader_done = true;
}

#ifndef CTX
#define CTX 5
#endif

YK_HARNESS H_ver_two_lockers_one_reader() {
    // initially unlocked and clean; deleted/root/border symbolic; counters concrete at the wrap-around boundary (all
    // counter values are covered for the single operations at kind K; here the schedule is the symbolic dimension)
    std::uint64_t w = (yk_nondet_u64() & (7ULL << 61)) | ((1ULL << 29) - 1ULL) | ((((1ULL << 29) - 2ULL)) << 32);
    node_version64_body b{};
    std::memcpy(&b, &w, 8);
    g_v.set_body(b);
    for (int i = 0; i < 2; ++i) {
        g_ins[i] = yk_nondet_bool();
        g_spl[i] = yk_nondet_bool();
    }
    yk_thread(0, &T_lock_a);
    yk_thread(1, &T_lock_b);
    yk_thread(2, &T_reader);
    yk_run_threads(CTX);
    // quiescence: lock released, no dirty bit, counters advanced by exactly the flagged unlocks, other fields untouched
    node_version64_body e = g_v.get_body();
    YK_ASSERT(!e.get_locked() && !e.get_inserting_deleting() && !e.get_splitting());
    unsigned ni = (g_ins[0] ? 1U : 0U) + (g_ins[1] ? 1U : 0U), ns = (g_spl[0] ? 1U : 0U) + (g_spl[1] ? 1U : 0U);
    YK_ASSERT(e.get_vinsert_delete() == ((b.get_vinsert_delete() + ni) & ((1U << 29) - 1U)));
    YK_ASSERT(e.get_vsplit() == ((b.get_vsplit() + ns) & ((1U << 29) - 1U)));
    YK_ASSERT(e.get_deleted() == b.get_deleted() && e.get_root() == b.get_root() && e.get_border() == b.get_border());
    YK_ASSERT(g_reader_done);
    if (g_s1 != g_s2) YK_REACH();                 // the reader saw a completed insert/split in between
    if (g_s1 == g_s2 && g_c1 == 1) YK_REACH();    // both reads after one flagged unlock
    YK_REACH();
}

// locker || flagger: every field keeps the value its last writer gave it, whatever the interleaving
YK_HARNESS H_ver_locker_vs_flagger() {
    std::uint64_t w = (yk_nondet_u64() & (7ULL << 61)) | ((1ULL << 29) - 1ULL) | ((((1ULL << 29) - 2ULL)) << 32);
    node_version64_body b{};
    std::memcpy(&b, &w, 8);
    g_v.set_body(b);
    g_ins[0] = yk_nondet_bool();
    g_spl[0] = yk_nondet_bool();
    g_set_root = yk_nondet_bool();
    g_set_deleted = yk_nondet_bool();
    yk_thread(0, &T_lock_a);
    yk_thread(1, &T_flagger);
    yk_run_threads(CTX);
    node_version64_body e = g_v.get_body();
    YK_ASSERT(!e.get_locked() && !e.get_inserting_deleting() && !e.get_splitting());
    YK_ASSERT(e.get_root() == g_set_root);       // the flagger is the only writer of root / deleted
    YK_ASSERT(e.get_deleted() == g_set_deleted);
    YK_ASSERT(e.get_border() == b.get_border());
    YK_ASSERT(e.get_vinsert_delete() == ((b.get_vinsert_delete() + (g_ins[0] ? 1U : 0U)) & ((1U << 29) - 1U)));
    YK_ASSERT(e.get_vsplit() == ((b.get_vsplit() + (g_spl[0] ? 1U : 0U)) & ((1U << 29) - 1U)));
    if (g_set_root != b.get_root() && g_ins[0]) YK_REACH();
    YK_REACH();
}
