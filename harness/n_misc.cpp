// Kind N harnesses for C20 (mem_usage), C13 (storages) and C11 (release of everything): real API calls on small trees.
#include "builder.h"
using namespace yakushima;
using namespace ykb;

namespace {
inline value* mk_value_la(unsigned len, unsigned align_log) {
    unsigned char buf[8] = {1, 2, 3, 4, 5, 6, 7, 8};
    return value::create_value<false>(buf, len, static_cast<value_align_type>(std::size_t{1} << align_log));
}
inline std::size_t blk_size(unsigned len, unsigned align_log) {
    std::size_t a = std::size_t{1} << align_log;
    if (a < 8) a = 8;
    return len + a;
}

// ------------------------------------------------------------------------------------------- C20
// one border with N entries whose values have symbolic length (0..8) and alignment (1..16): one level, exact bytes
template<unsigned N>
inline void c20_t1() {
    bstate<N> st;
    build_border<N>(st, true, 1);
    std::size_t vsum = 0;
    for (unsigned i = 0; i < N; ++i) {
        unsigned len = yk_nondet_u8(), al = yk_nondet_u8();
        yk_assume(len <= 8 && al <= 4);
        value* v = mk_value_la(len, al);
        value::delete_value(st.e[i].val); // replace the builder's 1-byte value
        st.node->get_lv_at(st.e[i].slot)->init_lv();
        st.node->set_lv_value(st.e[i].slot, v, nullptr);
        vsum += blk_size(len, al);
    }
    memory_usage_stack ms{};
    static_cast<base_node*>(st.node)->mem_usage(0, ms);
    YK_ASSERT(ms.size() == 1);
    auto [nodes, used, reserved] = ms.at(0);
    YK_ASSERT(nodes == 1);
    YK_ASSERT(reserved == sizeof(border_node) + vsum);
    YK_ASSERT(used == sizeof(border_node) - (15 - N) * sizeof(link_or_value) + vsum);
    YK_ASSERT(used <= reserved);
    YK_REACH();
}
// two layers: the next-layer root counts one level below the leaf that links it; interior root over two leaves
inline void c20_t2() {
    bstate<2> top;
    bstate<1> sub;
    build_border<2>(top, true, 0, 1);
    build_border<1>(sub, true, 0);
    attach_layer(top, 1, sub.node);
    memory_usage_stack ms{};
    static_cast<base_node*>(top.node)->mem_usage(0, ms);
    YK_ASSERT(ms.size() == 2);
    YK_ASSERT(std::get<0>(ms.at(0)) == 1 && std::get<0>(ms.at(1)) == 1);
    YK_ASSERT(std::get<2>(ms.at(0)) == sizeof(border_node) + 9); // one 1-byte value (8 header + 1) at the top level
    YK_ASSERT(std::get<2>(ms.at(1)) == sizeof(border_node) + 9);
    YK_ASSERT(std::get<1>(ms.at(0)) == sizeof(border_node) - 13 * sizeof(link_or_value) + 9); // a link slot counts as occupied
    YK_ASSERT(std::get<1>(ms.at(1)) == sizeof(border_node) - 14 * sizeof(link_or_value) + 9);
    YK_REACH();
}
inline void c20_t3() {
    bstate<1> a;
    bstate<2> b;
    build_border<1>(a, false, 0);
    build_border<2>(b, false, 0);
    auto* in = new interior_node();
    in->set_child_at(0, a.node);
    in->set_child_at(1, b.node);
    in->set_key(0, b.e[0].slice, (key_length_type) b.e[0].len);
    in->set_n_keys(1);
    in->set_version(mk_version(false, true, false, YK_VINS0, YK_VSPLIT0));
    memory_usage_stack ms{};
    static_cast<base_node*>(in)->mem_usage(0, ms);
    YK_ASSERT(ms.size() == 2);
    YK_ASSERT(std::get<0>(ms.at(0)) == 1 && std::get<0>(ms.at(1)) == 2);
    YK_ASSERT(std::get<2>(ms.at(0)) == sizeof(interior_node));
    YK_ASSERT(std::get<1>(ms.at(0)) == sizeof(interior_node) - 14 * sizeof(std::uintptr_t));
    YK_ASSERT(std::get<2>(ms.at(1)) == 2 * sizeof(border_node) + 3 * 9);
    YK_ASSERT(std::get<1>(ms.at(1)) <= std::get<2>(ms.at(1)));
    YK_REACH();
}
} // namespace
#define YK_ENTRY(name, call) YK_HARNESS name() { call; }
YK_ENTRY(H_c20_t1_n1, (c20_t1<1>()))
YK_ENTRY(H_c20_t1_n3, (c20_t1<3>()))
YK_ENTRY(H_c20_t2, (c20_t2()))
YK_ENTRY(H_c20_t3, (c20_t3()))

// ------------------------------------------------------------------------------------------- C11
// dropping a tree (what destroy() / delete_storage do per storage: root->destroy(); delete root) releases every node
// and every value of it, across layers and interior levels - nothing is left allocated, nothing is freed twice
namespace {
inline void c11_drop_t1() {
    std::int64_t live0 = yk_live_allocs();
    bstate<3> st;
    build_border<3>(st, true, 1);
    base_node* root = st.node;
    YK_ASSERT(yk_live_allocs() == live0 + 4);
    root->destroy();
    delete root;
    YK_ASSERT(yk_live_allocs() == live0);
    YK_REACH();
}
inline void c11_drop_t2() {
    std::int64_t live0 = yk_live_allocs();
    bstate<2> top;
    bstate<2> sub;
    build_border<2>(top, true, 0, 0);
    build_border<2>(sub, true, 1);
    attach_layer(top, 0, sub.node);
    base_node* root = top.node;
    root->destroy();
    delete root;
    YK_ASSERT(yk_live_allocs() == live0);
    YK_REACH();
}
inline void c11_drop_t3() {
    std::int64_t live0 = yk_live_allocs();
    bstate<1> a;
    bstate<2> b;
    build_border<1>(a, false, 0);
    build_border<2>(b, false, 0);
    auto* in = new interior_node();
    in->set_child_at(0, a.node);
    in->set_child_at(1, b.node);
    in->set_key(0, b.e[0].slice, (key_length_type) b.e[0].len);
    in->set_n_keys(1);
    in->set_version(mk_version(false, true, false, YK_VINS0, YK_VSPLIT0));
    base_node* root = in;
    root->destroy();
    delete root;
    YK_ASSERT(yk_live_allocs() == live0);
    YK_REACH();
}
} // namespace
YK_ENTRY(H_c11_drop_t1, (c11_drop_t1()))
YK_ENTRY(H_c11_drop_t2, (c11_drop_t2()))
YK_ENTRY(H_c11_drop_t3, (c11_drop_t3()))
