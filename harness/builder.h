// State builder + reference semantics for the kind-N (one step from an arbitrary valid state) harnesses (DESIGN 3.1-3.3).
// Nodes are built only through public members of the real classes, so the same code is the symbolic pre-state under
// CBMC and the concrete pre-state in the native replay.
#pragma once
#include "kvs.h"
#include "yk.h"
#include <cstring>

namespace ykb {
using namespace yakushima;

constexpr std::uint32_t M29 = (1U << 29) - 1U;
// key alphabet: only the first YK_KEYB bytes of every 8-byte slice are symbolic, the rest are 0x00 (lengths stay 0..8/9).
// All comparison sites are decided on ALL byte values at kind K (C18); node-level code only depends on order relations,
// prefixes and lengths, which 2 symbolic bytes per slice already generate.  Thorough tier: 8 (everything symbolic).
#ifndef YK_KEYB
#define YK_KEYB 8
#endif
#ifndef YK_VINS0
#define YK_VINS0 0x1ffffffeU /* two inserts away from the wrap */
#define YK_VSPLIT0 7U
#endif

inline std::uint64_t key_mask() { return YK_KEYB >= 8 ? ~0ULL : ((1ULL << (8 * (YK_KEYB % 8))) - 1ULL); }
inline unsigned eff(unsigned len) { return len > 8 ? 8 : len; }
// reference order on (slice,len) tuples = bytewise lexicographic on the key bytes, proper prefix first (C18 proves the
// implementation's comparisons equal to this on all tuples)
inline bool ref_lt(std::uint64_t sa, unsigned la, std::uint64_t sb, unsigned lb) {
    std::uint64_t a = __builtin_bswap64(sa), b = __builtin_bswap64(sb);
    if (a != b) return a < b;
    return la < lb;
}
inline bool valid_tuple(std::uint64_t s, unsigned l) {
    if (l > 9) return false;
    if (l < 8 && (s >> (8 * l)) != 0) return false;
    return true;
}
inline node_version64_body mk_version(bool border, bool root, bool deleted, std::uint32_t vins, std::uint32_t vsplit) {
    std::uint64_t w = (std::uint64_t) (vins & M29) | ((std::uint64_t) (vsplit & M29) << 32) | ((std::uint64_t) deleted << 61) |
                      ((std::uint64_t) root << 62) | ((std::uint64_t) border << 63);
    node_version64_body b{};
    std::memcpy(&b, &w, 8);
    return b;
}
inline std::uint64_t raw_version(node_version64_body b) {
    std::uint64_t w = 0;
    std::memcpy(&w, &b, 8);
    return w;
}

// one entry of a border node as the oracle sees it
struct entry {
    std::uint64_t slice;
    unsigned len;          // 0..8 value entry, 9 link to next layer
    unsigned char vbyte;   // the stored value is the 1-byte string {vbyte}
    value* val;            // the value word stored in the slot (tagged pointer)
    base_node* child;      // for len == 9
    unsigned slot;
};

template<unsigned N>
struct border_state {
    border_node* node;
    unsigned n;
    entry e[N];
};

// slice/len of layer `layer` of a key
inline void key_layer(const unsigned char* k, std::size_t kl, unsigned layer, std::uint64_t& slice, unsigned& len) {
    slice = 0;
    std::size_t off = (std::size_t) layer * 8;
    std::size_t rest = kl > off ? kl - off : 0;
    len = rest > 8 ? 9 : (unsigned) rest;
    for (unsigned i = 0; i < 8; ++i)
        if (i < rest) slice |= (std::uint64_t) k[off + i] << (8 * i);
}

inline value* mk_value(unsigned char byte) {
    return value::create_value<false>(&byte, 1, static_cast<value_align_type>(1));
}

// a border node with n <= N entries: symbolic keys (strictly ascending in the reference order), symbolic values,
// symbolic slot assignment when sym_slots (else identity), symbolic version counters; flags as given.
template<unsigned N>
inline void build_border(border_state<N>& st, bool root, bool allow_links, bool sym_slots, int fixed_n = -1) {
    auto* b = new border_node();
    st.node = b;
    // fixed_n >= 0: the entry count is CONCRETE (one query per count): the count nibble of the permutation is then a
    // constant, so symex knows the loop trip counts and that `cnk == 15` (split) is false; otherwise symbolic 1..N
    if (fixed_n >= 0) {
        st.n = (unsigned) fixed_n;
    } else {
        st.n = yk_nondet_u8();
        yk_assume(st.n <= N);
    }
    std::uint64_t perm = st.n;
    unsigned used = 0;
    for (unsigned i = 0; i < N; ++i) {
        entry& e = st.e[i];
        e.slice = yk_nondet_u64() & key_mask();
        e.len = yk_nondet_u8();
        e.vbyte = yk_nondet_u8();
        e.slot = sym_slots ? (yk_nondet_u8() & 15U) : i;
        e.val = nullptr;
        e.child = nullptr;
        yk_assume(valid_tuple(e.slice, e.len));
        yk_assume(allow_links || e.len <= 8);
        yk_assume(e.slot < 15);
        yk_assume(((used >> e.slot) & 1U) == 0);
        if (i > 0) yk_assume(ref_lt(st.e[i - 1].slice, st.e[i - 1].len, e.slice, e.len));
        used |= 1U << e.slot;
        e.val = mk_value(e.vbyte);
        if (i < st.n) perm |= (std::uint64_t) e.slot << (4 * (i + 1));
    }
    // node arrays are written slot by slot at CONCRETE indices with symbolic contents (a symbolic-index write would make
    // every later read of the array a read-over-write chain for the solver)
    for (unsigned s = 0; s < 15; ++s) {
        bool occupied = false;
        std::uint64_t sl = 0;
        unsigned ln = 0;
        value* vv = nullptr;
        for (unsigned i = 0; i < N; ++i) {
            if (i < st.n && st.e[i].slot == s) {
                occupied = true;
                sl = st.e[i].slice;
                ln = st.e[i].len;
                vv = st.e[i].val;
            }
        }
        if (occupied) {
            b->set_key_slice_at(s, sl);
            b->set_key_length_at(s, (key_length_type) ln);
            if (ln <= 8) b->set_lv_value(s, vv, nullptr);
        }
    }
    b->get_permutation().set_body(perm);
    // Version counters are CONCRETE here (DESIGN 2.9(3)): with symbolic counters in the same 64-bit word CBMC cannot
    // constant-fold the border/root/deleted flag tests and explores every shape-dependent branch.  All counter values
    // incl. the 2^29 wrap are covered at kind K (C17); tree code only compares counters for equality.
    // (an EMPTY root border carries the `deleted` flag: that is shape T0d, built by build_empty_root - kept separate so
    // that the flag word of this shape is one constant)
    yk_assume(st.n >= 1);
    b->set_version(mk_version(true, root, false, YK_VINS0, YK_VSPLIT0));
}

// T0d: the empty root border that `remove` of the last key leaves behind (root + deleted, no entries)
inline border_node* build_empty_root() {
    auto* b = new border_node();
    b->get_permutation().set_body(0);
    b->set_version(mk_version(true, true, true, YK_VINS0, YK_VSPLIT0));
    return b;
}

// representation invariant of a border node (structural half of C08), evaluated on the real node
inline bool ri_border(border_node* b, bool expect_root) {
    std::uint64_t perm = b->get_permutation().get_body();
    unsigned n = perm & 15U, used = 0;
    node_version64_body v = b->get_version();
    if (!v.get_border() || v.get_locked() || v.get_inserting_deleting() || v.get_splitting()) return false;
    if (v.get_root() != expect_root) return false;
    if (v.get_deleted() != (n == 0)) return false;
    std::uint64_t ps = 0;
    unsigned pl = 0;
    for (unsigned i = 0; i < 15; ++i) {
        if (i < n) {
            unsigned s = (perm >> (4 * (i + 1))) & 15U;
            if (s >= 15 || ((used >> s) & 1U)) return false;
            used |= 1U << s;
            std::uint64_t ks = b->get_key_slice_at(s);
            unsigned kl = b->get_key_length_at(s);
            if (!valid_tuple(ks, kl)) return false;
            if (i > 0 && !ref_lt(ps, pl, ks, kl)) return false;
            ps = ks;
            pl = kl;
            link_or_value* lv = b->get_lv_at(s);
            if (kl <= 8) {
                if (lv->get_value() == nullptr || lv->get_next_layer() != nullptr) return false;
            } else {
                if (lv->get_next_layer() == nullptr) return false;
            }
        }
    }
    for (unsigned s = 0; s < 15; ++s)
        if (((used >> s) & 1U) == 0) {
            link_or_value* lv = b->get_lv_at(s);
            if (lv->get_value() != nullptr || lv->get_next_layer() != nullptr) return false;
        }
    return true;
}

// reference lookup in the pre-state (walk), independent of the implementation's search
template<unsigned N>
inline int ref_find(const border_state<N>& st, std::uint64_t qs, unsigned ql) {
    int found = -1;
    for (unsigned i = 0; i < N; ++i)
        if (i < st.n && st.e[i].slice == qs && st.e[i].len == ql) found = (int) i;
    return found;
}

struct sym_key {
    unsigned char b[24];
    std::size_t len;
};
template<unsigned KMAX>
inline void make_key(sym_key& k) {
    for (unsigned i = 0; i < KMAX; ++i) k.b[i] = (i % 8) < YK_KEYB ? yk_nondet_u8() : (unsigned char) 0;
    k.len = yk_nondet_u8();
    yk_assume(k.len <= KMAX);
}
} // namespace ykb
