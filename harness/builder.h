// State builder + reference semantics for the kind-N (one step from an arbitrary valid state) harnesses (DESIGN 3.1-3.3).
// Nodes are built only through public members of the real classes, so the same code is the symbolic pre-state under
// CBMC and the concrete pre-state in the native replay.
//
// What is CONCRETE per query (measured necessity, DESIGN 2.9): the topology, the entry count of every node, the slot
// assignment (identity or a fixed scramble), the version counters.  What is SYMBOLIC: every key slice and key length
// class, every value byte, the operation's key and value, the probe key, flags of the operation.
#pragma once
#include "kvs.h"
#include "yk.h"
#include <cstring>

namespace ykb {
using namespace yakushima;

constexpr std::uint32_t M29 = (1U << 29) - 1U;
// key alphabet: only the first YK_KEYB bytes of every 8-byte slice are symbolic, the rest 0x00 (lengths stay 0..8/9).
#ifndef YK_KEYB
#define YK_KEYB 8
#endif
#ifndef YK_VINS0
#define YK_VINS0 0x1ffffffeU /* two inserts away from the 2^29 wrap */
#define YK_VSPLIT0 7U
#endif

inline std::uint64_t key_mask() { return YK_KEYB >= 8 ? ~0ULL : ((1ULL << (8 * (YK_KEYB % 8))) - 1ULL); }
// reference order on (slice,len) tuples = bytewise lexicographic on the key bytes, proper prefix first (C18 decides the
// implementation's comparison sites against the literal definition on all tuples; this is its closed form)
inline bool ref_lt(std::uint64_t sa, unsigned la, std::uint64_t sb, unsigned lb) {
    std::uint64_t a = __builtin_bswap64(sa), b = __builtin_bswap64(sb);
    if (a != b) return a < b;
    return la < lb;
}
inline bool valid_tuple(std::uint64_t s, unsigned l) {
    if (l > 9) return false;
    if (l < 8 && (s >> (8 * l)) != 0) return false;
    return true;
}
inline node_version64_body mk_version(bool border, bool root, bool deleted, std::uint32_t vins, std::uint32_t vsplit) {
    std::uint64_t w = (std::uint64_t) (vins & M29) | ((std::uint64_t) (vsplit & M29) << 32) | ((std::uint64_t) deleted << 61) |
                      ((std::uint64_t) root << 62) | ((std::uint64_t) border << 63);
    node_version64_body b{};
    std::memcpy(&b, &w, 8);
    return b;
}
inline std::uint64_t raw_version(node_version64_body b) {
    std::uint64_t w = 0;
    std::memcpy(&w, &b, 8);
    return w;
}
// fixed slot assignments: 0 = identity, 1 = a scramble (rank i lives in slot (7*i+3) mod 15: a bijection on 0..14)
inline unsigned slot_of(unsigned map, unsigned i) { return map == 0 ? i : (7 * i + 3) % 15; }

struct entry {
    std::uint64_t slice;
    unsigned len;          // 0..8 value entry, 9 link to the next layer
    unsigned char vbyte;   // the stored value is the 1-byte string {vbyte}
    value* val;            // value word stored in the slot (tagged pointer), null for links
    base_node* child;      // next-layer root for len == 9
    unsigned slot;
};

template<unsigned N>
struct bstate {
    border_node* node;
    unsigned n;
    entry e[N > 0 ? N : 1];
};

inline value* mk_value(unsigned char byte) { return value::create_value<false>(&byte, 1, static_cast<value_align_type>(1)); }

// slice/len of layer `layer` of a key
inline void key_layer(const unsigned char* k, std::size_t kl, unsigned layer, std::uint64_t& slice, unsigned& len) {
    slice = 0;
    std::size_t off = (std::size_t) layer * 8;
    std::size_t rest = kl > off ? kl - off : 0;
    len = rest > 8 ? 9 : (unsigned) rest;
    for (unsigned i = 0; i < 8; ++i)
        if (i < rest) slice |= (std::uint64_t) k[off + i] << (8 * i);
}

// A border node with exactly N entries (N concrete), strictly ascending symbolic keys, symbolic 1-byte values.
// link_idx >= 0: that entry is a next-layer link (len 9) whose child is attached later with attach_layer().
// lo/hi (optional): every entry lies in [lo, hi) in the reference order (for children of an interior node).
template<unsigned N>
inline void build_border(bstate<N>& st, bool root, unsigned slotmap, int link_idx = -1, bool deleted_if_empty = true,
                         unsigned symmask = 0xffffU) {
    auto* b = new border_node();
    st.node = b;
    st.n = N;
    std::uint64_t perm = N;
    for (unsigned i = 0; i < N; ++i) {
        entry& e = st.e[i];
        // entries outside symmask are concrete fillers: the 1-byte keys 0x08, 0x18, ..., 0xE8 (ascending, well apart), so
        // that big nodes stay tractable; the symbolic entries range freely between their neighbours
        bool symb = ((symmask >> i) & 1U) != 0;
        e.slice = symb ? (yk_nondet_u64() & key_mask()) : (std::uint64_t) (0x08U + 0x10U * i);
        e.len = ((int) i == link_idx) ? 9U : (symb ? (unsigned) yk_nondet_u8() : 1U);
        e.vbyte = symb ? yk_nondet_u8() : (unsigned char) (0x40 + i);
        e.slot = slot_of(slotmap, i);
        e.child = nullptr;
        yk_assume(valid_tuple(e.slice, e.len));
        yk_assume((int) i == link_idx || e.len <= 8);
        if (i > 0) yk_assume(ref_lt(st.e[i - 1].slice, st.e[i - 1].len, e.slice, e.len));
        e.val = e.len <= 8 ? mk_value(e.vbyte) : nullptr;
        perm |= (std::uint64_t) e.slot << (4 * (i + 1));
        b->set_key_slice_at(e.slot, e.slice);
        b->set_key_length_at(e.slot, (key_length_type) e.len);
        if (e.len <= 8) b->set_lv_value(e.slot, e.val, nullptr);
    }
    b->get_permutation().set_body(perm);
    b->set_version(mk_version(true, root, N == 0 && root && deleted_if_empty, YK_VINS0, YK_VSPLIT0));
}

// make `child_root` (a root-flagged node of the next layer) the target of link entry `idx` of `parent`
template<unsigned N>
inline void attach_layer(bstate<N>& parent, unsigned idx, base_node* child_root) {
    parent.e[idx].child = child_root;
    parent.node->set_lv_next_layer(parent.e[idx].slot, child_root);
    child_root->set_parent(parent.node);
}

template<unsigned N>
inline int ref_find(const bstate<N>& st, std::uint64_t qs, unsigned ql) {
    int found = -1;
    for (unsigned i = 0; i < N; ++i)
        if (st.e[i].slice == qs && st.e[i].len == ql) found = (int) i;
    return found;
}
// every entry of st is >= (ls,ll) [if has_lo] and < (hs,hl) [if has_hi]
template<unsigned N>
inline void assume_range(const bstate<N>& st, bool has_lo, std::uint64_t ls, unsigned ll, bool has_hi, std::uint64_t hs, unsigned hl) {
    for (unsigned i = 0; i < N; ++i) {
        if (has_lo) yk_assume(!ref_lt(st.e[i].slice, st.e[i].len, ls, ll));
        if (has_hi) yk_assume(ref_lt(st.e[i].slice, st.e[i].len, hs, hl));
    }
}

// ---- representation invariant (structural half of C08), evaluated on the REAL nodes
inline bool ri_version_clean(node_version64_body v) { return !v.get_locked() && !v.get_inserting_deleting() && !v.get_splitting(); }

// border: valid permutation, entries strictly ascending, value/link kind matches the length class, unused slots empty,
// flags; entries within [lo,hi) if given.  cnt_out = entry count.
inline bool ri_border(border_node* b, bool expect_root, base_node* expect_parent, unsigned* cnt_out = nullptr, bool has_lo = false,
                      std::uint64_t ls = 0, unsigned ll = 0, bool has_hi = false, std::uint64_t hs = 0, unsigned hl = 0) {
    std::uint64_t perm = b->get_permutation().get_body();
    unsigned n = perm & 15U, used = 0;
    node_version64_body v = b->get_version();
    if (!v.get_border() || !ri_version_clean(v)) return false;
    if (v.get_root() != expect_root) return false;
    if (v.get_deleted() != (n == 0 && expect_root)) return false;
    if (b->get_parent() != expect_parent) return false;
    if (cnt_out != nullptr) *cnt_out = n;
    std::uint64_t ps = 0;
    unsigned pl = 0;
    for (unsigned i = 0; i < 15; ++i) {
        if (i < n) {
            unsigned s = (perm >> (4 * (i + 1))) & 15U;
            if (s >= 15 || ((used >> s) & 1U)) return false;
            used |= 1U << s;
            std::uint64_t ks = b->get_key_slice_at(s);
            unsigned kl = b->get_key_length_at(s);
            if (!valid_tuple(ks, kl)) return false;
            if (i > 0 && !ref_lt(ps, pl, ks, kl)) return false;
            if (has_lo && ref_lt(ks, kl, ls, ll)) return false;
            if (has_hi && !ref_lt(ks, kl, hs, hl)) return false;
            ps = ks;
            pl = kl;
            link_or_value* lv = b->get_lv_at(s);
            if (kl <= 8) {
                if (lv->get_value() == nullptr || lv->get_next_layer() != nullptr) return false;
            } else {
                base_node* c = lv->get_next_layer();
                if (c == nullptr || c->get_parent() != b || !c->get_version_root() || c->get_version_deleted()) return false;
            }
        }
    }
    for (unsigned s = 0; s < 15; ++s)
        if (((used >> s) & 1U) == 0) {
            link_or_value* lv = b->get_lv_at(s);
            if (lv->get_value() != nullptr || lv->get_next_layer() != nullptr) return false;
        }
    return true;
}

// interior with border children: 1 <= n_keys <= 15, separators strictly ascending, children 0..n_keys non-null with
// parent == this and !root, the rest null; child j holds keys in [key[j-1], key[j]); leaf chain == in-order children.
inline bool ri_interior_of_borders(interior_node* in, bool expect_root, base_node* expect_parent, unsigned expect_children) {
    node_version64_body v = in->get_version();
    if (v.get_border() || !ri_version_clean(v) || v.get_deleted()) return false;
    if (v.get_root() != expect_root || in->get_parent() != expect_parent) return false;
    unsigned nk = in->get_n_keys();
    if (nk < 1 || nk > 15 || nk + 1 != expect_children) return false;
    border_node* prev = nullptr;
    for (unsigned j = 0; j < 16; ++j) {
        base_node* c = in->get_child_at(j);
        if (j <= nk) {
            if (c == nullptr || !c->get_version_border()) return false;
            auto* cb = static_cast<border_node*>(c);
            bool has_lo = j > 0, has_hi = j < nk;
            if (!ri_border(cb, false, in, nullptr, has_lo, has_lo ? in->get_key_slice_at(j - 1) : 0, has_lo ? in->get_key_length_at(j - 1) : 0,
                           has_hi, has_hi ? in->get_key_slice_at(j) : 0, has_hi ? in->get_key_length_at(j) : 0))
                return false;
            if (cb->get_permutation_cnk() == 0) return false; // an emptied border must have been unlinked
            if (cb->get_prev() != prev) return false;
            if (prev != nullptr && prev->get_next() != cb) return false;
            prev = cb;
        } else if (c != nullptr) {
            return false;
        }
    }
    if (prev == nullptr || prev->get_next() != nullptr) return false;
    for (unsigned j = 0; j < 15; ++j) {
        if (j + 1 < nk && !ref_lt(in->get_key_slice_at(j), in->get_key_length_at(j), in->get_key_slice_at(j + 1), in->get_key_length_at(j + 1))) return false;
        if (j < nk && !valid_tuple(in->get_key_slice_at(j), in->get_key_length_at(j))) return false;
        if (j >= nk && (in->get_key_slice_at(j) != 0 || in->get_key_length_at(j) != 0)) return false;
    }
    return true;
}

// T3(2; A, B): interior root with one separator over two border children (contents symbolic, separator any tuple that
// bounds them: greater than every entry of the left child, not greater than any entry of the right child)
template<unsigned A, unsigned B>
struct t3state {
    interior_node* root;
    bstate<A> a;
    bstate<B> b;
    std::uint64_t sep_slice;
    unsigned sep_len;
};
template<unsigned A, unsigned B>
inline void build_t3(t3state<A, B>& t, unsigned map_a = 0, unsigned map_b = 0) {
    build_border<A>(t.a, false, map_a);
    build_border<B>(t.b, false, map_b);
    t.sep_slice = yk_nondet_u64() & key_mask();
    t.sep_len = yk_nondet_u8();
    yk_assume(valid_tuple(t.sep_slice, t.sep_len));
    assume_range(t.a, false, 0, 0, true, t.sep_slice, t.sep_len);
    assume_range(t.b, true, t.sep_slice, t.sep_len, false, 0, 0);
    auto* in = new interior_node();
    t.root = in;
    in->set_child_at(0, t.a.node);
    in->set_child_at(1, t.b.node);
    in->set_key(0, t.sep_slice, (key_length_type) t.sep_len);
    in->set_n_keys(1);
    in->set_version(mk_version(false, true, false, YK_VINS0, YK_VSPLIT0));
    t.a.node->set_parent(in);
    t.b.node->set_parent(in);
    t.a.node->set_next(t.b.node);
    t.b.node->set_prev(t.a.node);
}

struct sym_key {
    unsigned char b[24];
    std::size_t len;
};
template<unsigned KMAX>
inline void make_key(sym_key& k) {
    for (unsigned i = 0; i < KMAX; ++i) k.b[i] = (i % 8) < YK_KEYB ? yk_nondet_u8() : (unsigned char) 0;
    k.len = yk_nondet_u8();
    yk_assume(k.len <= KMAX);
}
inline std::string_view sv(const sym_key& k) { return std::string_view(reinterpret_cast<const char*>(k.b), k.len); }

struct session {
    thread_info ti;
    Epoch ep;
    Token tok() { return &ti; }
};
inline void open_session(session& s) {
    s.ep = yk_nondet_u64();
    yk_assume(s.ep != 0);
    s.ti.set_begin_epoch(s.ep);
}
// exactly one RETIRE event for block `blk` tagged with the session's epoch, and nothing reclaimed
inline bool retired_once(const void* blk, Epoch ep) {
    return yk_event_count() == 1 && yk_event_kind(0) == 0 && yk_event_ptr(0) == blk && yk_event_tag(0) == ep;
}
} // namespace ykb
