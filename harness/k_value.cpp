// Kind K harnesses for C15 (sequential half): the real yakushima::value / link_or_value on symbolic lengths/alignments.
#include "kvs.h"
#include "yk.h"
#include <cstring>
using namespace yakushima;

#ifndef YK_VLEN_MAX
#define YK_VLEN_MAX 12
#endif
#ifndef YK_VALIGN_LOG_MAX
#define YK_VALIGN_LOG_MAX 5
#endif

// out-of-line value: header and body do not overlap, body sits `max(align,8)` bytes after the block start (so it is
// aligned to the requested alignment whenever the allocator honours it), exact length, exact bytes, gc-info = what was
// allocated, sized delete matches the allocation.
YK_HARNESS H_val_create_roundtrip() {
    std::size_t v_len = yk_nondet_u8();
    yk_assume(v_len <= YK_VLEN_MAX);
    unsigned lg = yk_nondet_u8();
    yk_assume(lg <= YK_VALIGN_LOG_MAX);
    std::size_t align = std::size_t{1} << lg;
    unsigned char src[YK_VLEN_MAX + 1];
    for (unsigned char& c : src) c = yk_nondet_u8();
    value* v = value::create_value<false>(src, v_len, static_cast<value_align_type>(align));
    YK_ASSERT(v != nullptr);
    YK_ASSERT(value::is_value_ptr(v));
    YK_ASSERT(value::need_delete(v));
    YK_ASSERT(value::get_len(v) == v_len);
    auto* body = static_cast<unsigned char*>(value::get_body(v));
    auto [blk, blk_len, blk_align] = value::get_gc_info(v);
    std::size_t eff_align = align < 8 ? 8 : align;
    YK_ASSERT(static_cast<std::size_t>(blk_align) == eff_align);
    YK_ASSERT(blk_len == v_len + eff_align);
    YK_ASSERT(eff_align % align == 0);
    YK_ASSERT(body == static_cast<unsigned char*>(blk) + eff_align); // header (8 bytes) and body do not overlap; body offset is a multiple of align
    YK_ASSERT((reinterpret_cast<std::uintptr_t>(blk) | (std::uintptr_t{1} << 62)) == reinterpret_cast<std::uintptr_t>(v));
    for (unsigned i = 0; i < YK_VLEN_MAX; ++i)
        if (i < v_len) YK_ASSERT(body[i] == src[i]);
    // a link_or_value stores and returns the same value word; created_value_ptr designates the stored copy
    link_or_value lv{};
    void* created = nullptr;
    lv.set_value(v, &created);
    YK_ASSERT(lv.get_value() == v);
    YK_ASSERT(lv.get_next_layer() == nullptr);
    YK_ASSERT(created == body);
    value::remove_delete_flag(v);
    YK_ASSERT(!value::need_delete(v));
    YK_ASSERT(value::get_len(v) == v_len);
    value::delete_value(v); // sized + aligned delete: checked against the allocation by the runtime model
    if (v_len == 0) YK_REACH();
    if (v_len == YK_VLEN_MAX && lg == YK_VALIGN_LOG_MAX) YK_REACH();
    if (lg == 0) YK_REACH();
    YK_REACH();
}

// inline (pointer-typed) value: the word is stored and returned by value, never dereferenced or freed
YK_HARNESS H_val_inline() {
    std::uintptr_t word = yk_nondet_u64();
    yk_assume((word >> 62) == 0); // documented limit: user pointers do not use the two tag bits
    value* v = value::create_value<true>(&word, sizeof(word), static_cast<value_align_type>(alignof(std::uintptr_t)));
    YK_ASSERT(reinterpret_cast<std::uintptr_t>(v) == word);
    YK_ASSERT(!value::is_value_ptr(v));
    YK_ASSERT(!value::need_delete(v));
    YK_ASSERT(value::get_len(v) == sizeof(std::uintptr_t));
    YK_ASSERT(reinterpret_cast<std::uintptr_t>(value::get_body(v)) == word);
    auto [blk, blk_len, blk_align] = value::get_gc_info(v);
    YK_ASSERT(blk == nullptr && blk_len == 0);
    link_or_value lv{};
    void* created = nullptr;
    lv.set_value(v, &created);
    if (word != 0) {
        YK_ASSERT(reinterpret_cast<std::uintptr_t>(lv.get_value()) == word);
        YK_ASSERT(reinterpret_cast<std::uintptr_t>(created) == word);
        YK_REACH();
    }
    value::delete_value(v); // must be a no-op
    lv.init_lv();
    YK_ASSERT(lv.get_value() == nullptr && lv.get_next_layer() == nullptr);
    YK_REACH();
}

// the header arithmetic alone, for the documented range: lengths up to several MiB and alignments up to a page
YK_HARNESS H_val_header_arith() {
    std::size_t v_len = yk_nondet_u32();
    yk_assume(v_len <= (std::size_t{8} << 20));
    unsigned lg = yk_nondet_u8();
    yk_assume(lg <= 12);
    std::size_t align = std::size_t{1} << lg;
    // a header as create_value would have written it (private ctor is not reachable without allocating; the fields are
    // {uint32 len_, uint16 align_, bool need_delete_}, observed through the public getters on a hand-laid block)
    alignas(8) unsigned char block[8];
    std::uint32_t len32 = static_cast<std::uint32_t>(v_len);
    std::uint16_t al16 = static_cast<std::uint16_t>(align < 8 ? 8 : align);
    std::memcpy(block, &len32, 4);
    std::memcpy(block + 4, &al16, 2);
    block[6] = 1;
    block[7] = 0;
    auto* v = reinterpret_cast<value*>(reinterpret_cast<std::uintptr_t>(block) | (std::uintptr_t{1} << 62));
    YK_ASSERT(value::get_len(v) == v_len);               // 32-bit length field holds every documented length
    auto [blk, blk_len, blk_align] = value::get_gc_info(v);
    YK_ASSERT(static_cast<std::size_t>(blk_align) == (align < 8 ? 8 : align)); // 16-bit alignment field holds up to 4096
    YK_ASSERT(blk_len == v_len + (align < 8 ? 8 : align));
    YK_ASSERT(static_cast<unsigned char*>(value::get_body(v)) == block + (align < 8 ? 8 : align));
    if (lg == 12 && v_len == (std::size_t{8} << 20)) YK_REACH();
    YK_REACH();
}
