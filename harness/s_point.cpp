// Kind S harnesses for C01 (linearizability of point operations), C09 (completion, no lock left), C15 (atomic
// overwrite): two real operations on one storage under a symbolic schedule; shape T1(2) built directly.
#include "builder.h"
using namespace yakushima;
using namespace ykb;

#ifndef CTX
#define CTX 4
#endif
#ifndef PN
#define PN 2
#endif

namespace {
bstate<PN> g_st;
tree_instance g_ti;
session g_s[2];
sym_key g_k[2];
std::uint64_t g_ks[2];
unsigned g_kl[2];
// results
status g_rc[2];
std::pair<char*, std::size_t> g_out[2];
char g_nv[2];
char* g_created[2];
bool g_unique[2];

inline void op_get(int i) {
    g_out[i] = {nullptr, 0};
    g_rc[i] = get<char>(&g_ti, sv(g_k[i]), g_out[i]);
    if (g_rc[i] == status::OK) {
        // "an OK get never yields a null or torn value": checked at the response, inside the reader's session
        YK_ASSERT(g_out[i].first != nullptr);
        YK_ASSERT(g_out[i].second == 1);
    }
}
inline void op_remove(int i) { g_rc[i] = remove(g_s[i].tok(), &g_ti, sv(g_k[i])); }
inline void op_put(int i) {
    g_created[i] = nullptr;
    g_rc[i] = put<char>(g_s[i].tok(), &g_ti, sv(g_k[i]), &g_nv[i], g_unique[i], 1, &g_created[i], static_cast<value_align_type>(1), nullptr);
}
inline void setup() {
    build_border<PN>(g_st, true, 0);
    g_ti.store_root_ptr(g_st.node);
    for (int i = 0; i < 2; ++i) {
        open_session(g_s[i]);
        make_key<8>(g_k[i]);
        key_layer(g_k[i].b, g_k[i].len, 0, g_ks[i], g_kl[i]);
        g_nv[i] = (char) yk_nondet_u8();
        g_unique[i] = yk_nondet_bool();
    }
}
inline bool same_key() { return g_ks[0] == g_ks[1] && g_kl[0] == g_kl[1]; }
// real-time precedence from the schedule: op a responded before op b was invoked
inline bool before(int a, int b) { return yk_ctx_of_finish(a) < yk_ctx_of_start(b); }
inline void quiescent_checks() {
    // C09: both operations completed (asserted by the scheduler), no lock left held, no dirty bit
    node_version64_body v = g_st.node->get_version();
    YK_ASSERT(!v.get_locked() && !v.get_inserting_deleting() && !v.get_splitting());
    YK_ASSERT(g_ti.load_root_ptr() == g_st.node);
    YK_ASSERT(ri_border(g_st.node, true, nullptr)); // C08 at quiescence
}
} // namespace

extern "C" __attribute__((used)) void T_get0() { op_get(0); }
extern "C" __attribute__((used)) void T_get1() { op_get(1); }
extern "C" __attribute__((used)) void T_remove1() { op_remove(1); }
extern "C" __attribute__((used)) void T_put1() { op_put(1); }
extern "C" __attribute__((used)) void T_remove0() { op_remove(0); }
extern "C" __attribute__((used)) void T_put0() { op_put(0); }

// get(k0) || remove(k1)
YK_HARNESS H_c01_get_remove() {
    setup();
    int f0 = ref_find(g_st, g_ks[0], g_kl[0]), f1 = ref_find(g_st, g_ks[1], g_kl[1]);
    yk_thread(0, &T_get0);
    yk_thread(1, &T_remove1);
    yk_run_threads(CTX);
    quiescent_checks();
    // remove's result does not depend on the get
    YK_ASSERT(g_rc[1] == (f1 >= 0 ? status::OK : status::OK_NOT_FOUND));
    // the get is linearized before or after the remove
    bool hit_pre = f0 >= 0;                       // serial order get;remove
    bool hit_post = f0 >= 0 && !(same_key());     // serial order remove;get
    bool got = g_rc[0] == status::OK;
    YK_ASSERT(g_rc[0] == status::OK || g_rc[0] == status::WARN_NOT_EXIST);
    bool ok_first = (got == hit_pre) && !before(1, 0);   // get first: not allowed if remove responded before get was invoked
    bool ok_second = (got == hit_post) && !before(0, 1);
    YK_ASSERT(ok_first || ok_second);
    if (got) {
        YK_ASSERT(g_out[0].first == static_cast<char*>(value::get_body(g_st.e[f0].val))); // exactly the stored bytes
        YK_ASSERT((unsigned char) *g_out[0].first == g_st.e[f0].vbyte);
    }
    if (same_key() && f0 >= 0 && got) YK_REACH();
    if (same_key() && f0 >= 0 && !got) YK_REACH();
    YK_REACH();
}
