// Kind S harnesses for C01 (linearizability of point operations), C09 (completion, no lock left), C15 (atomic
// overwrite): two real operations on one storage under a symbolic schedule; shape T1(2) built directly.
#include "builder.h"
using namespace yakushima;
using namespace ykb;

#ifndef CTX
#define CTX 4
#endif
#ifndef PN
#define PN 2
#endif

namespace {
bstate<PN> g_st;
tree_instance g_ti;
session g_s[2];
sym_key g_k[2];
std::uint64_t g_ks[2];
unsigned g_kl[2];
// results
status g_rc[2];
std::pair<char*, std::size_t> g_out[2];
char g_nv[2];
char* g_created[2];
bool g_unique[2];

inline void op_get(int i) {
    g_out[i] = {nullptr, 0};
    g_rc[i] = get<char>(&g_ti, sv(g_k[i]), g_out[i]);
    if (g_rc[i] == status::OK) {
        // "an OK get never yields a null or torn value": checked at the response, inside the reader's session
        YK_ASSERT(g_out[i].first != nullptr);
        YK_ASSERT(g_out[i].second == 1);
    }
}
inline void op_remove(int i) { g_rc[i] = remove(g_s[i].tok(), &g_ti, sv(g_k[i])); }
inline void op_put(int i) {
    g_created[i] = nullptr;
    g_rc[i] = put<char>(g_s[i].tok(), &g_ti, sv(g_k[i]), &g_nv[i], g_unique[i], 1, &g_created[i], static_cast<value_align_type>(1), nullptr);
}
inline void setup() {
    build_border<PN>(g_st, true, 0);
    g_ti.store_root_ptr(g_st.node);
    for (int i = 0; i < 2; ++i) {
        open_session(g_s[i]);
        make_key<8>(g_k[i]);
        key_layer(g_k[i].b, g_k[i].len, 0, g_ks[i], g_kl[i]);
        g_nv[i] = (char) yk_nondet_u8();
        g_unique[i] = yk_nondet_bool();
    }
}
inline bool same_key() { return g_ks[0] == g_ks[1] && g_kl[0] == g_kl[1]; }
// real-time precedence from the schedule: op a responded before op b was invoked
inline bool before(int a, int b) { return yk_ctx_of_finish(a) < yk_ctx_of_start(b); }
inline void quiescent_checks() {
    // C09: both operations completed (asserted by the scheduler), no lock left held, no dirty bit
    node_version64_body v = g_st.node->get_version();
    YK_ASSERT(!v.get_locked() && !v.get_inserting_deleting() && !v.get_splitting());
    YK_ASSERT(g_ti.load_root_ptr() == g_st.node);
    YK_ASSERT(ri_border(g_st.node, true, nullptr)); // C08 at quiescence
}
} // namespace

extern "C" __attribute__((used)) void T_get0() { op_get(0); }
extern "C" __attribute__((used)) void T_get1() { op_get(1); }
extern "C" __attribute__((used)) void T_remove1() { op_remove(1); }
extern "C" __attribute__((used)) void T_put1() { op_put(1); }
extern "C" __attribute__((used)) void T_remove0() { op_remove(0); }
extern "C" __attribute__((used)) void T_put0() { op_put(0); }

// get(k0) || remove(k1).  A = the thread that may be pre-empted at the hook sites of the query's window, B = the other
// thread (runs without voluntary pre-emption; it still yields where it waits or retries).  Template A / B / A, then the
// fair continuation.
template<int A>
inline void template_aba() {
    yk_allow_ctx(0, 1u << A);
    yk_allow_ctx(1, 1u << (1 - A));
    yk_allow_ctx(2, 1u << A);
}
template<int A>
inline void c01_get_remove() {
    setup();
    template_aba<A>();
    int f0 = ref_find(g_st, g_ks[0], g_kl[0]), f1 = ref_find(g_st, g_ks[1], g_kl[1]);
    yk_thread(0, &T_get0);
    yk_thread(1, &T_remove1);
    yk_run_threads(3);
    quiescent_checks();
    // remove's result does not depend on the get
    YK_ASSERT(g_rc[1] == (f1 >= 0 ? status::OK : status::OK_NOT_FOUND));
    // the get is linearized before or after the remove
    bool hit_pre = f0 >= 0;                       // serial order get;remove
    bool hit_post = f0 >= 0 && !(same_key());     // serial order remove;get
    bool got = g_rc[0] == status::OK;
    YK_ASSERT(g_rc[0] == status::OK || g_rc[0] == status::WARN_NOT_EXIST);
    bool ok_first = (got == hit_pre) && !before(1, 0);   // get first: not allowed if remove responded before get was invoked
    bool ok_second = (got == hit_post) && !before(0, 1);
    YK_ASSERT(ok_first || ok_second);
    if (got) {
        YK_ASSERT(g_out[0].first == static_cast<char*>(value::get_body(g_st.e[f0].val))); // exactly the stored bytes
        YK_ASSERT((unsigned char) *g_out[0].first == g_st.e[f0].vbyte);
    }
    if (same_key() && f0 >= 0 && got) YK_REACH();
    if (same_key() && f0 >= 0 && !got) YK_REACH();
    YK_REACH();
}
YK_HARNESS H_c01_get_remove_a0() { c01_get_remove<0>(); }
YK_HARNESS H_c01_get_remove_a1() { c01_get_remove<1>(); }
// development probe: do the flag bits of the root's version word constant-fold in symex?
YK_HARNESS H_probe_fold() {
    setup();
    YK_ASSERT(g_ti.load_root_ptr()->get_version_border());
    YK_REACH();
}
extern "C" __attribute__((used)) void T_probe() { YK_ASSERT(g_ti.load_root_ptr()->get_version_border()); }
YK_HARNESS H_probe_fold2() {
    setup();
    yk_thread(0, &T_probe);
    yk_thread(1, &T_probe);
    yk_run_threads(1);
}

// ---------------------------------------------------------------------------------------------------------------------
// Intruder mode (DESIGN 10.3b): all schedules with at most TWO context switches.  A = the calling code below (plain),
// B = the registered intruder: B's whole operation runs inside one hook of A (site fixed per query, visit symbolic).
namespace {
template<int A>   // A = index of the pre-empted operation (0: get, 1: remove)
inline void i_get_remove() {
    setup();
    int f0 = ref_find(g_st, g_ks[0], g_kl[0]), f1 = ref_find(g_st, g_ks[1], g_kl[1]);
    // the serial orders (B never runs inside A) are the kind-N harnesses; here B must have run inside A
    if (A == 0) { yk_intruder(&T_remove1); T_get0(); yk_intruder(nullptr); }
    else { yk_intruder(&T_get0); T_remove1(); yk_intruder(nullptr); }
    if (yk_intruder_state() != 2) yk_stop();
    bool interleaved = true;
    quiescent_checks();
    YK_ASSERT(g_rc[1] == (f1 >= 0 ? status::OK : status::OK_NOT_FOUND));
    bool hit_pre = f0 >= 0;                       // serial order get;remove
    bool hit_post = f0 >= 0 && !(same_key());     // serial order remove;get
    bool got = g_rc[0] == status::OK;
    YK_ASSERT(g_rc[0] == status::OK || g_rc[0] == status::WARN_NOT_EXIST);
    if (interleaved) YK_ASSERT(got == hit_pre || got == hit_post); // overlapping operations: either order is a linearization
    else YK_ASSERT(A == 0 ? got == hit_pre : got == hit_post);     // not pre-empted: program order
    if (got) {
        YK_ASSERT(g_out[0].first == static_cast<char*>(value::get_body(g_st.e[f0].val)));
        YK_ASSERT((unsigned char) *g_out[0].first == g_st.e[f0].vbyte);
    }
    if (interleaved && same_key() && f0 >= 0 && got) YK_REACH();
    if (interleaved && same_key() && f0 >= 0 && !got) YK_REACH();
    if (interleaved) YK_REACH();
}
} // namespace
YK_HARNESS H_i_get_remove_a0() { i_get_remove<0>(); }
YK_HARNESS H_i_get_remove_a1() { i_get_remove<1>(); }
YK_HARNESS H_seq_remove_get() {
    setup();
    T_remove1();
    T_get0();
    YK_ASSERT(g_rc[0] == status::OK || g_rc[0] == status::WARN_NOT_EXIST);
    YK_REACH();
}

// get(k0) pre-empted, put(k1) (upsert or unique insert, new 1-byte value) runs completely inside: C01 + C15 (a reader sees the
// complete old or the complete new value, never a mixture, never a freed block)
namespace {
inline void i_get_put() {
    setup();
    int f0 = ref_find(g_st, g_ks[0], g_kl[0]), f1 = ref_find(g_st, g_ks[1], g_kl[1]);
    yk_intruder(&T_put1);
    T_get0();
    yk_intruder(nullptr);
    if (yk_intruder_state() != 2) yk_stop();
    node_version64_body v = g_st.node->get_version();
    YK_ASSERT(!v.get_locked() && !v.get_inserting_deleting() && !v.get_splitting());
    YK_ASSERT(ri_border(g_st.node, true, nullptr));
    bool rejected = f1 >= 0 && g_unique[1];
    YK_ASSERT(g_rc[1] == (rejected ? status::WARN_UNIQUE_RESTRICTION : status::OK));
    bool hit_pre = f0 >= 0;
    bool hit_post = f0 >= 0 || (same_key() && !rejected);
    bool got = g_rc[0] == status::OK;
    YK_ASSERT(g_rc[0] == status::OK || g_rc[0] == status::WARN_NOT_EXIST);
    YK_ASSERT(got == hit_pre || got == hit_post);
    if (got) {
        YK_ASSERT(g_out[0].first != nullptr && g_out[0].second == 1);
        bool is_old = f0 >= 0 && g_out[0].first == static_cast<char*>(value::get_body(g_st.e[f0].val));
        bool is_new = same_key() && !rejected && g_out[0].first == g_created[1];
        YK_ASSERT(is_old || is_new);                               // one complete stored (pointer, length) pair
        if (is_old) YK_ASSERT((unsigned char) *g_out[0].first == g_st.e[f0].vbyte); // the old block is still intact at response time
        if (is_new) YK_ASSERT(*g_out[0].first == g_nv[1]);
        if (is_new) YK_REACH();
        if (is_old && same_key() && !rejected) YK_REACH();
    }
    YK_REACH();
}
} // namespace
YK_HARNESS H_i_get_put_a0() { i_get_put(); }
