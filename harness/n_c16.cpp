// Kind N harnesses for C16 (init/fin cycles) and the sequential half of C14 (sessions) - small code, no tree nodes.
// The background threads are modelled by running their REAL bodies (epoch_manager::epoch_thread / gc_thread) on the
// calling thread; every period (sleepMs) is reported to yk_on_sleep(n), where the harness observes the progress.
#include "kvs.h"
#include "yk.h"
using namespace yakushima;

#ifndef SESS
#define SESS YAKUSHIMA_MAX_PARALLEL_SESSIONS
#endif

namespace {
int g_stage = 0;
Epoch g_e0 = 0;
const void* g_retired = nullptr;
} // namespace

// called by the runtime at every sleepMs() of the thread body under observation
extern "C" __attribute__((used)) void yk_on_sleep(unsigned n) {
    if (g_stage == 1) { // epoch thread: at its 3rd period the epoch has advanced twice - in EVERY cycle
        if (n == 3) {
            YK_ASSERT(epoch_management::get_epoch() == g_e0 + 2);
            YK_ASSERT(garbage_collection::get_gc_epoch() == g_e0 + 1); // no session open: gc epoch follows the epoch
            YK_REACH_TAG(1);
            yk_stop();
        }
    } else if (g_stage == 2) { // gc thread: after one full period the eligible retired block has been reclaimed
        if (n == 2) {
            unsigned reclaims = 0;
            for (unsigned i = 0; i < 4; ++i)
                if (i < yk_event_count() && yk_event_kind(i) == 1 && yk_event_ptr(i) == g_retired) ++reclaims;
            YK_ASSERT(reclaims == 1); // released exactly once
            YK_REACH_TAG(2);
            yk_stop();
        }
    }
}

namespace {
// the state a previous cycle leaves behind: stop flags possibly set (what fin() does), epoch advanced, slots possibly
// still marked running (cycles may end with sessions open).  Arbitrary combination => any number of earlier cycles.
inline void arbitrary_previous_cycles() {
    if (yk_nondet_bool()) epoch_manager::set_epoch_thread_end();
    if (yk_nondet_bool()) epoch_manager::set_gc_thread_end();
    unsigned k = yk_nondet_u8();
    yk_assume(k <= 2);
    for (unsigned i = 0; i < 2; ++i)
        if (i < k) epoch_management::epoch_inc();
    for (auto& ti : thread_info_table::get_thread_info_table()) {
        if (yk_nondet_bool()) {
            ti.set_running(true);
            ti.set_begin_epoch(yk_nondet_u64());
        }
    }
}
inline void all_slots_free_and_reusable() {
    Token t[SESS + 1] = {};
    for (unsigned i = 0; i < SESS; ++i) YK_ASSERT(enter(t[i]) == status::OK);
    YK_ASSERT(enter(t[SESS]) == status::WARN_MAX_SESSIONS);
    for (unsigned i = 0; i < SESS; ++i)
        for (unsigned j = 0; j < i; ++j) YK_ASSERT(t[i] != t[j]);
    for (unsigned i = 0; i < SESS; ++i) YK_ASSERT(leave(t[i]) == status::OK);
}
} // namespace

// after init() - from whatever earlier cycles left - all session slots are free and the epoch thread keeps advancing
YK_HARNESS H_c16_epoch_runs_every_cycle() {
    arbitrary_previous_cycles();
    init();
    // no session is opened in this cycle (opening one would overwrite whatever a slot still carries from earlier cycles)
    g_e0 = epoch_management::get_epoch();
    g_stage = 1;
    epoch_manager::epoch_thread(); // the body the started thread runs
    // returning means the thread exited although fin() was not called: the epoch stops advancing in this cycle
    YK_ASSERT(false);
}

// after init() - from whatever earlier cycles left - every session slot is free, distinct and reusable
YK_HARNESS H_c16_slots_free_every_cycle() {
    arbitrary_previous_cycles();
    init();
    all_slots_free_and_reusable();
    for (auto& ti : thread_info_table::get_thread_info_table()) YK_ASSERT(!ti.get_running() && ti.get_begin_epoch() == 0);
    YK_REACH();
}

// after init() the gc thread keeps reclaiming retired memory
YK_HARNESS H_c16_gc_runs_every_cycle() {
    arbitrary_previous_cycles();
    init();
    Token t{};
    YK_ASSERT(enter(t) == status::OK);
    auto* ti = static_cast<thread_info*>(t);
    char b = 'x';
    value* v = value::create_value<false>(&b, 1, static_cast<value_align_type>(1));
    auto [blk, len, al] = value::get_gc_info(v);
    g_retired = blk;
    yk_event_reset();
    ti->get_gc_info().push_value_container({ti->get_begin_epoch(), blk, len, al});
    YK_ASSERT(leave(t) == status::OK);
    garbage_collection::set_gc_epoch(ti->get_begin_epoch() + 1 + epoch_management::get_epoch()); // strictly later than the tag
    g_stage = 2;
    epoch_manager::gc_thread();
    YK_ASSERT(false); // the gc thread exited although fin() was not called
}

// a full second cycle with real init(); fin(); init(): fin terminates (both thread bodies return once their flag is
// set), drains what sessions retired - even with a session left open - and the next cycle starts clean
YK_HARNESS H_c16_two_cycles() {
    std::int64_t live0 = yk_live_allocs();
    init();
    Token t{};
    YK_ASSERT(enter(t) == status::OK);
    auto* ti = static_cast<thread_info*>(t);
    char b = 'y';
    value* v = value::create_value<false>(&b, 1, static_cast<value_align_type>(1));
    auto [blk, len, al] = value::get_gc_info(v);
    ti->get_gc_info().push_value_container({ti->get_begin_epoch(), blk, len, al});
    bool leave_open = yk_nondet_bool();
    if (!leave_open) YK_ASSERT(leave(t) == status::OK);
    fin();
    YK_ASSERT(yk_live_allocs() == live0); // everything released at the latest by fin(): C11
    init();
    all_slots_free_and_reusable();
    Epoch e = epoch_management::get_epoch();
    YK_ASSERT(e != 0);
    fin();
    YK_ASSERT(yk_live_allocs() == live0);
    if (leave_open) YK_REACH();
    YK_REACH();
}

// ---- C14, sequential half: with no other enter/leave in progress, enter succeeds iff a slot is free; the token is a
// free slot; the session counts for reclamation (begin_epoch != 0) from the return of enter until leave; a released
// slot can be acquired again.  The slot table is ARBITRARY (any history of enters/leaves).
YK_HARNESS H_c14_enter_leave_seq() {
    auto& tab = thread_info_table::get_thread_info_table();
    bool running[SESS];
    unsigned open = 0;
    for (unsigned i = 0; i < SESS; ++i) {
        running[i] = yk_nondet_bool();
        tab[i].set_running(running[i]);
        tab[i].set_begin_epoch(running[i] ? 1 + (yk_nondet_u64() >> 1) : 0);
        if (running[i]) ++open;
    }
    Token t = nullptr;
    status rc = enter(t);
    if (open == SESS) {
        YK_ASSERT(rc == status::WARN_MAX_SESSIONS);
        YK_REACH();
    } else {
        YK_ASSERT(rc == status::OK);
        bool is_slot = false;
        for (unsigned i = 0; i < SESS; ++i) {
            if (t == &tab[i]) {
                is_slot = true;
                YK_ASSERT(!running[i]); // never a slot that is already open
            } else {
                YK_ASSERT(tab[i].get_running() == running[i]); // other sessions untouched
            }
        }
        YK_ASSERT(is_slot);
        auto* ti = static_cast<thread_info*>(t);
        YK_ASSERT(ti->get_running());
        YK_ASSERT(ti->get_begin_epoch() != 0);                            // counted by the reclamation protocol ...
        YK_ASSERT(ti->get_begin_epoch() == epoch_management::get_epoch()); // ... with the current epoch
        unsigned now_open = 0;
        for (unsigned i = 0; i < SESS; ++i) now_open += tab[i].get_running() ? 1 : 0;
        YK_ASSERT(now_open == open + 1 && now_open <= SESS);
        YK_ASSERT(leave(t) == status::OK);
        YK_ASSERT(!ti->get_running() && ti->get_begin_epoch() == 0);
        Token t2 = nullptr;
        YK_ASSERT(enter(t2) == status::OK); // the released slot (or another free one) can be acquired again
        if (open + 1 == SESS) {
            YK_ASSERT(t2 == t);
            YK_REACH();
        }
        YK_REACH();
    }
}
