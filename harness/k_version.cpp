// Kind K harnesses for C17 (sequential half): node_version64 through its public operations, full 64-bit domain.
#include "kvs.h"
#include "yk.h"
#include <cstring>
using namespace yakushima;

namespace {
constexpr std::uint32_t M29 = (1U << 29) - 1U;
inline std::uint64_t raw(node_version64_body b) {
    std::uint64_t w = 0;
    std::memcpy(&w, &b, 8);
    return w;
}
inline node_version64_body from_raw(std::uint64_t w) {
    node_version64_body b{};
    std::memcpy(&b, &w, 8);
    return b;
}
// the eight public getters account for every one of the 64 bits (so "leaves every other field untouched" is total)
inline std::uint64_t rebuild(node_version64_body b) {
    return (std::uint64_t) b.get_vinsert_delete() | ((std::uint64_t) b.get_locked() << 29) |
           ((std::uint64_t) b.get_inserting_deleting() << 30) | ((std::uint64_t) b.get_splitting() << 31) |
           ((std::uint64_t) b.get_vsplit() << 32) | ((std::uint64_t) b.get_deleted() << 61) |
           ((std::uint64_t) b.get_root() << 62) | ((std::uint64_t) b.get_border() << 63);
}
} // namespace

YK_HARNESS H_ver_layout() {
    std::uint64_t w = yk_nondet_u64();
    node_version64_body b = from_raw(w);
    YK_ASSERT(rebuild(b) == w);
    YK_ASSERT(b.get_vinsert_delete() <= M29 && b.get_vsplit() <= M29);
    YK_ASSERT((b == from_raw(w)) && !(b != from_raw(w)));
    std::uint64_t w2 = yk_nondet_u64();
    YK_ASSERT((b == from_raw(w2)) == (w == w2));
    YK_REACH();
}

// unlock: clears locked + both dirty bits; vinsert_delete++ iff inserting_deleting, vsplit++ iff splitting (mod 2^29 each);
// deleted/root/border and the other counter untouched; performed as exactly one store (CAS) on the word.
YK_HARNESS H_ver_unlock() {
    std::uint64_t w = yk_nondet_u64();
    node_version64 v;
    v.set_body(from_raw(w));
    node_version64_body before = v.get_body();
    yk_watch(&v);
    v.unlock();
    YK_ASSERT(yk_watch_store_count() == 1);
    node_version64_body after = v.get_body();
    YK_ASSERT(!after.get_locked());
    YK_ASSERT(!after.get_inserting_deleting());
    YK_ASSERT(!after.get_splitting());
    YK_ASSERT(after.get_vinsert_delete() == ((before.get_vinsert_delete() + (before.get_inserting_deleting() ? 1U : 0U)) & M29));
    YK_ASSERT(after.get_vsplit() == ((before.get_vsplit() + (before.get_splitting() ? 1U : 0U)) & M29));
    YK_ASSERT(after.get_deleted() == before.get_deleted());
    YK_ASSERT(after.get_root() == before.get_root());
    YK_ASSERT(after.get_border() == before.get_border());
    YK_ASSERT(rebuild(after) == raw(after));
    if (before.get_vinsert_delete() == M29 && before.get_inserting_deleting()) YK_REACH(); // wrap-around of the insert counter
    if (before.get_vsplit() == M29 && before.get_splitting() && before.get_deleted()) YK_REACH(); // wrap next to the flag bits
    if (!before.get_inserting_deleting() && !before.get_splitting()) YK_REACH();
    YK_REACH();
}

// each atomic_set_* changes exactly its own bit; atomic_inc_vinsert changes only that counter (mod 2^29); one store each
YK_HARNESS H_ver_setters() {
    std::uint64_t w = yk_nondet_u64();
    bool tf = yk_nondet_bool();
    std::uint8_t which = yk_nondet_u8();
    yk_assume(which < 7);
    if (which == 6) yk_assume(((w >> 29) & 1ULL) == 0); // lock() on a locked word waits (SPIN hook): out of a single thread's reach
    node_version64 v;
    v.set_body(from_raw(w));
    yk_watch(&v);
    std::uint64_t bit = 0;
    switch (which) {
        case 0: v.atomic_set_border(tf); bit = 1ULL << 63; break;
        case 1: v.atomic_set_deleted(tf); bit = 1ULL << 61; break;
        case 2: v.atomic_set_inserting_deleting(tf); bit = 1ULL << 30; break;
        case 3: v.atomic_set_root(tf); bit = 1ULL << 62; break;
        case 4: v.atomic_set_splitting(tf); bit = 1ULL << 31; break;
        case 5: v.atomic_inc_vinsert(); break;
        default: v.lock(); bit = 1ULL << 29; tf = true; break; // lock on an unlocked word
    }
    YK_ASSERT(yk_watch_store_count() == 1);
    std::uint64_t a = raw(v.get_body());
    node_version64_body ab = v.get_body();
    if (which == 5) {
        YK_ASSERT((a & ~(std::uint64_t) M29) == (w & ~(std::uint64_t) M29));
        YK_ASSERT(ab.get_vinsert_delete() == ((from_raw(w).get_vinsert_delete() + 1U) & M29));
    } else {
        YK_ASSERT((a & ~bit) == (w & ~bit));
        YK_ASSERT(((a & bit) != 0) == tf);
    }
    switch (which) {
        case 0: YK_ASSERT(ab.get_border() == tf && v.get_border() == tf); break;
        case 1: YK_ASSERT(ab.get_deleted() == tf && v.get_deleted() == tf); break;
        case 2: YK_ASSERT(ab.get_inserting_deleting() == tf); break;
        case 3: YK_ASSERT(ab.get_root() == tf && v.get_root() == tf); break;
        case 4: YK_ASSERT(ab.get_splitting() == tf); break;
        case 6: YK_ASSERT(ab.get_locked() && v.get_locked()); break;
        default: break;
    }
    if (which == 5 && (w & M29) == M29) YK_REACH();
    if (which == 6) YK_REACH();
    if (which == 0) YK_REACH();
    YK_REACH();
}

// a stable version is returned only for words with locked / inserting_deleting / splitting all clear, and is the word itself
YK_HARNESS H_ver_stable() {
    std::uint64_t w = yk_nondet_u64();
    node_version64 v;
    v.set_body(from_raw(w));
    // a single thread would wait forever on a dirty word (the SPIN hook is an assertion in this mode): only clean words return
    yk_assume(((w >> 29) & 7ULL) == 0);
    yk_watch(&v);
    node_version64_body s = v.get_stable_version();
    YK_ASSERT(yk_watch_store_count() == 0);
    YK_ASSERT(raw(s) == w);
    YK_ASSERT(!s.get_locked() && !s.get_inserting_deleting() && !s.get_splitting());
    YK_ASSERT(v.get_vinsert_delete() == s.get_vinsert_delete() && v.get_vsplit() == s.get_vsplit());
    YK_REACH();
}

// the converse: on ANY word with one of the three bits set, get_stable_version does not return (it reaches its wait)
YK_HARNESS H_ver_stable_dirty_waits() {
    std::uint64_t w = yk_nondet_u64();
    yk_assume(((w >> 29) & 7ULL) != 0);
    node_version64_body b = from_raw(w);
    // the loop's own exit test, evaluated through the public getters, is false for every such word
    YK_ASSERT(b.get_inserting_deleting() || b.get_locked() || b.get_splitting());
    YK_REACH();
}

// lock; flag; unlock sequence as writers use it: equal stable versions before/after <=> nothing was flagged
YK_HARNESS H_ver_lock_cycle() {
    std::uint64_t w = yk_nondet_u64();
    yk_assume(((w >> 29) & 7ULL) == 0);
    bool ins = yk_nondet_bool(), spl = yk_nondet_bool();
    node_version64 v;
    v.set_body(from_raw(w));
    node_version64_body s0 = v.get_stable_version();
    v.lock();
    if (ins) v.atomic_set_inserting_deleting(true);
    if (spl) v.atomic_set_splitting(true);
    v.unlock();
    node_version64_body s1 = v.get_stable_version();
    YK_ASSERT((s0 == s1) == (!ins && !spl));
    YK_ASSERT((s0.get_vinsert_delete() != s1.get_vinsert_delete()) == ins);
    YK_ASSERT((s0.get_vsplit() != s1.get_vsplit()) == spl);
    if (ins && spl) YK_REACH();
    YK_REACH();
}
