// C18: the comparison SITES inside the nodes (lookup and rank in a leaf, routing and insertion in an interior node)
// against the one reference order, on small nodes with symbolic (slice,length) contents.
#include "builder.h"
using namespace yakushima;
using namespace ykb;

namespace {
struct tup {
    std::uint64_t s;
    unsigned l;
};
inline tup sym_tuple() {
    tup t{yk_nondet_u64(), yk_nondet_u8()};
    yk_assume(valid_tuple(t.s, t.l));
    return t;
}
inline border_node* leaf_stub() {
    auto* b = new border_node();
    b->set_version(mk_version(true, false, false, 3, 4));
    return b;
}

// routing: get_child_of returns child #(number of separators <= key)
template<unsigned NK>
inline void site_get_child_of() {
    auto* in = new interior_node();
    tup sep[NK];
    border_node* ch[NK + 1];
    for (unsigned i = 0; i <= NK; ++i) {
        ch[i] = leaf_stub();
        in->set_child_at(i, ch[i]);
        ch[i]->set_parent(in);
    }
    for (unsigned i = 0; i < NK; ++i) {
        sep[i] = sym_tuple();
        yk_assume(sep[i].l >= 1); // a separator is a real key of a non-first leaf position: never the empty key
        if (i > 0) yk_assume(ref_lt(sep[i - 1].s, sep[i - 1].l, sep[i].s, sep[i].l));
        in->set_key(i, sep[i].s, (key_length_type) sep[i].l);
    }
    in->set_n_keys(NK);
    in->set_version(mk_version(false, true, false, YK_VINS0, YK_VSPLIT0));
    tup k = sym_tuple();
    unsigned expect = 0;
    for (unsigned i = 0; i < NK; ++i)
        if (!ref_lt(k.s, k.l, sep[i].s, sep[i].l)) expect = i + 1; // separators are ascending: count of sep <= key
    node_version64_body v = in->get_stable_version();
    base_node* got = in->get_child_of(k.s, (key_length_type) k.l, v);
    YK_ASSERT(got == ch[expect]);
    YK_ASSERT(v == ch[expect]->get_stable_version()); // the child's version is handed back
    if (k.l == 8 && sep[0].l == 9 && k.s == sep[0].s) YK_REACH(); // 8-byte key vs "continues in next layer" pivot
    if (k.l == 9 && sep[0].l == 8 && k.s == sep[0].s) YK_REACH();
    if (k.l == 0) YK_REACH();
    if (expect == NK) YK_REACH();
    YK_REACH();
}

// insertion into an interior node: the new separator/child land at the position the reference order dictates
template<unsigned NK>
inline void site_interior_insert() {
    auto* in = new interior_node();
    tup sep[NK + 1];
    border_node* ch[NK + 2];
    for (unsigned i = 0; i <= NK; ++i) {
        ch[i] = leaf_stub();
        in->set_child_at(i, ch[i]);
    }
    for (unsigned i = 0; i < NK; ++i) {
        sep[i] = sym_tuple();
        yk_assume(sep[i].l >= 1);
        if (i > 0) yk_assume(ref_lt(sep[i - 1].s, sep[i - 1].l, sep[i].s, sep[i].l));
        in->set_key(i, sep[i].s, (key_length_type) sep[i].l);
    }
    in->set_n_keys(NK);
    in->set_version(mk_version(false, true, false, YK_VINS0, YK_VSPLIT0));
    in->lock();
    tup p = sym_tuple();
    yk_assume(p.l >= 1);
    for (unsigned i = 0; i < NK; ++i) yk_assume(p.s != sep[i].s || p.l != sep[i].l); // a new separator is a new key
    border_node* nc = leaf_stub();
    unsigned pos = 0;
    for (unsigned i = 0; i < NK; ++i)
        if (ref_lt(sep[i].s, sep[i].l, p.s, p.l)) pos = i + 1;
    in->insert(nc, std::make_pair((key_slice_type) p.s, (key_length_type) p.l));
    in->version_unlock();
    YK_ASSERT(in->get_n_keys() == NK + 1);
    for (unsigned i = 0; i <= NK; ++i) {
        tup e = i < pos ? sep[i] : (i == pos ? p : sep[i - 1]);
        YK_ASSERT(in->get_key_slice_at(i) == e.s && in->get_key_length_at(i) == e.l);
    }
    for (unsigned i = 0; i <= NK + 1; ++i) {
        base_node* e = i <= pos ? ch[i] : (i == pos + 1 ? nc : ch[i - 1]);
        YK_ASSERT(in->get_child_at(i) == e); // the new child is the RIGHT neighbour of its separator
    }
    if (pos == 0) YK_REACH();
    if (pos == NK) YK_REACH();
    YK_REACH();
}

// leaf: lookup finds the key iff present (both lookup variants), rank-if-insert = number of smaller entries
template<unsigned N, unsigned MAP>
inline void site_leaf_lookup_rank() {
    bstate<N> st;
    build_border<N>(st, true, MAP);
    tup k = sym_tuple();
    int found = ref_find(st, k.s, k.l);
    link_or_value* a = st.node->get_lv_of_without_lock(k.s, (key_length_type) k.l);
    node_version64_body sv{};
    std::size_t pos = 99;
    link_or_value* b = st.node->get_lv_of(k.s, (key_length_type) k.l, sv, pos);
    if (found >= 0) {
        YK_ASSERT(a == st.node->get_lv_at(st.e[found].slot));
        YK_ASSERT(b == a && pos == st.e[found].slot);
        YK_REACH();
    } else {
        YK_ASSERT(a == nullptr && b == nullptr);
        unsigned rank = 0;
        for (unsigned i = 0; i < N; ++i)
            if (ref_lt(st.e[i].slice, st.e[i].len, k.s, k.l)) rank = i + 1;
        st.node->lock();
        YK_ASSERT(st.node->compute_rank_if_insert(k.s, (key_length_type) k.l) == rank);
        st.node->version_unlock();
        if (rank == 0) YK_REACH();
        if (rank == N) YK_REACH();
        YK_REACH();
    }
    YK_ASSERT(sv == st.node->get_stable_version());
}
} // namespace

#define YK_ENTRY(name, call) YK_HARNESS name() { call; }
YK_ENTRY(H_site_get_child_of_1, (site_get_child_of<1>()))
YK_ENTRY(H_site_get_child_of_2, (site_get_child_of<2>()))
YK_ENTRY(H_site_get_child_of_3, (site_get_child_of<3>()))
YK_ENTRY(H_site_interior_insert_1, (site_interior_insert<1>()))
YK_ENTRY(H_site_interior_insert_2, (site_interior_insert<2>()))
YK_ENTRY(H_site_interior_insert_3, (site_interior_insert<3>()))
YK_ENTRY(H_site_leaf_1, (site_leaf_lookup_rank<1, 0>()))
YK_ENTRY(H_site_leaf_2, (site_leaf_lookup_rank<2, 1>()))
YK_ENTRY(H_site_leaf_3, (site_leaf_lookup_rank<3, 0>()))
