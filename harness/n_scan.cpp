// Kind N harnesses for the range scan (C03; scan part of C05; scan cross-check of C08; C15 through scan): the real
// scan<char> on directly built shapes (T0, T0d, T1, T2 two layers, T3 interior root) with symbolic contents and a
// symbolic request (l_key, l_end, r_key, r_end, max_size, right_to_left), compared with a reference that enumerates the
// shape's entries (never through find_border) and filters them by bytewise lexicographic order.
#include "builder.h"
using namespace yakushima;
using namespace ykb;

#ifndef YK_EPB
#define YK_EPB 10 /* endpoint keys: 0..YK_EPB symbolic bytes */
#endif

namespace {
using tuple_t = std::tuple<std::string, char*, std::size_t>;
using nv_t = std::pair<node_version64_body, node_version64*>;
constexpr unsigned FKB = 16; // full keys of the reference: at most two layers

struct went { // one entry of walk(tree): full key + the stored value word
    unsigned char b[FKB];
    unsigned len;
    value* val;
    border_node* home; // the border node that holds the value
};

inline int cmp_bytes(const unsigned char* a, unsigned al, const unsigned char* b, unsigned bl) {
    for (unsigned i = 0; i < FKB; ++i) {
        if (i >= al || i >= bl) break;
        if (a[i] != b[i]) return a[i] < b[i] ? -1 : 1;
    }
    return al < bl ? -1 : (al > bl ? 1 : 0);
}
inline void slice_bytes(std::uint64_t slice, unsigned n, unsigned char* out) {
    for (unsigned i = 0; i < 8; ++i)
        if (i < n) out[i] = (unsigned char) (slice >> (8 * i));
}
inline void walk_entry(const entry& e, border_node* home, went& x, const unsigned char* prefix, unsigned plen) {
    for (unsigned j = 0; j < 8; ++j)
        if (j < plen) x.b[j] = prefix[j];
    slice_bytes(e.slice, e.len, x.b + plen);
    x.len = plen + e.len;
    x.val = e.val;
    x.home = home;
}
template<unsigned N>
inline void walk_border(const bstate<N>& st, went* w, unsigned& nw, const unsigned char* prefix, unsigned plen) {
    for (unsigned i = 0; i < N; ++i) {
        if (st.e[i].len > 8) continue; // links are expanded by the caller
        went& x = w[nw++];
        for (unsigned j = 0; j < 8; ++j)
            if (j < plen) x.b[j] = prefix[j];
        slice_bytes(st.e[i].slice, st.e[i].len, x.b + plen);
        x.len = plen + st.e[i].len;
        x.val = st.e[i].val;
        x.home = st.node;
    }
}

// endpoint keys: the first YK_EPB bytes symbolic, the rest 0x00, length 0..264 (beyond 255: the key length does not fit
// the 8-bit key_length_type used inside the nodes)
struct ep_key {
    unsigned char b[272];
    std::size_t len;
};
inline void make_ep(ep_key& k, bool longk) {
    std::memset(k.b, 0, sizeof(k.b));
    for (unsigned i = 0; i < YK_EPB; ++i) k.b[i] = (i % 8) < YK_KEYB ? yk_nondet_u8() : (unsigned char) 0;
    unsigned lo = yk_nondet_u8(), hi = longk ? (unsigned) yk_nondet_u8() : 0u;
    k.len = lo + 256u * hi;
    yk_assume(k.len <= (longk ? 264u : (unsigned) YK_EPB));
}
inline std::string_view sv(const ep_key& k) { return std::string_view(reinterpret_cast<const char*>(k.b), k.len); }
template<class K>
struct requestT {
    K l, r;
    scan_endpoint le, re;
    std::size_t max_size;
    bool rtl;
};
using request = requestT<sym_key>;       // endpoint keys of 0..YK_EPB bytes
using request_long = requestT<ep_key>;   // endpoint keys of 0..264 bytes
inline scan_endpoint mk_endpoint() {
    unsigned e = yk_nondet_u8();
    yk_assume(e < 3);
    return e == 0 ? scan_endpoint::EXCLUSIVE : (e == 1 ? scan_endpoint::INCLUSIVE : scan_endpoint::INF);
}
// LE/RE: 0 EXCLUSIVE, 1 INCLUSIVE, 2 INF, 3 symbolic (case split of the request over queries: each query is smaller)
inline scan_endpoint endpoint_of(unsigned e) { return e == 0 ? scan_endpoint::EXCLUSIVE : (e == 1 ? scan_endpoint::INCLUSIVE : scan_endpoint::INF); }
template<class Q>
inline void mk_request_rest(Q& q, unsigned max_max, unsigned LE, unsigned RE, unsigned RTL) {
    q.le = LE == 3 ? mk_endpoint() : endpoint_of(LE);
    q.re = RE == 3 ? mk_endpoint() : endpoint_of(RE);
    q.max_size = yk_nondet_u8();
    yk_assume(q.max_size <= max_max);
    q.rtl = RTL == 2 ? (bool) yk_nondet_bool() : RTL == 1;
}
inline void mk_request(request& q, unsigned max_max, unsigned LE = 3, unsigned RE = 3, unsigned RTL = 2) {
    make_key<YK_EPB>(q.l);
    make_key<YK_EPB>(q.r);
    mk_request_rest(q, max_max, LE, RE, RTL);
}
inline void mk_request(request_long& q, unsigned max_max, unsigned LE = 3, unsigned RE = 3, unsigned RTL = 2) {
    make_ep(q.l, true);
    make_ep(q.r, true);
    yk_assume(q.l.len <= 16 || q.r.len <= 16); // at most one of the two endpoint keys is long (bound of the memcmp model)
    mk_request_rest(q, max_max, LE, RE, RTL);
}
// the documented invalid requests (kvs.h, note of scan): r < l or l == r with an exclusive end (both ends finite);
// empty r_key with an exclusive right end; right_to_left with a bounded right end or max_size != 1
template<class Q>
inline bool ref_bad_usage(const Q& q) {
    bool fin = q.le != scan_endpoint::INF && q.re != scan_endpoint::INF;
    int c = cmp_bytes(q.l.b, (unsigned) q.l.len, q.r.b, (unsigned) q.r.len);
    if (fin && c > 0) return true;
    if (fin && c == 0 && (q.le == scan_endpoint::EXCLUSIVE || q.re == scan_endpoint::EXCLUSIVE)) return true;
    if (q.re == scan_endpoint::EXCLUSIVE && q.r.len == 0) return true;
    if (q.rtl && (q.re != scan_endpoint::INF || q.max_size != 1)) return true;
    return false;
}
template<class Q>
inline bool ref_in_range(const went& x, const Q& q) {
    if (q.le != scan_endpoint::INF) { // an INF endpoint ignores the key passed with it
        int c = cmp_bytes(x.b, x.len, q.l.b, (unsigned) q.l.len);
        if (c < 0 || (c == 0 && q.le == scan_endpoint::EXCLUSIVE)) return false;
    }
    if (q.re != scan_endpoint::INF) {
        int c = cmp_bytes(x.b, x.len, q.r.b, (unsigned) q.r.len);
        if (c > 0 || (c == 0 && q.re == scan_endpoint::EXCLUSIVE)) return false;
    }
    return true;
}
inline bool same_key(const std::string& s, const went& x) {
    if (s.size() != x.len) return false;
    for (unsigned i = 0; i < FKB; ++i)
        if (i < x.len && (unsigned char) s[i] != x.b[i]) return false;
    return true;
}

// runs the real scan and compares with the reference; returns through `res`/`nv` for the C05 continuation.
// W = number of entries of walk(tree) (concrete), w ascending by construction of the shape.
template<unsigned W, class Q>
inline bool run_scan(tree_instance* ti, const went* w, const Q& q, std::vector<tuple_t>& res, std::vector<nv_t>& nv, status& rc) {
    res.reserve(W + 1);
    nv.reserve(W + 3);
    rc = scan<char>(ti, sv(q.l), q.le, sv(q.r), q.re, res, &nv, q.max_size, q.rtl);
    if (ref_bad_usage(q)) {
        YK_ASSERT(rc == status::ERR_BAD_USAGE);
        YK_REACH();
        return false;
    }
    YK_ASSERT(rc == status::OK);
    // reference result: forward = the first max_size in-range entries; right_to_left (max_size 1) = the greatest one
    bool take[W > 0 ? W : 1];
    unsigned cnt = 0;
    if (!q.rtl) {
        for (unsigned i = 0; i < W; ++i) {
            take[i] = ref_in_range(w[i], q) && (q.max_size == 0 || cnt < q.max_size);
            if (take[i]) ++cnt;
        }
    } else {
        for (unsigned i = W; i-- > 0;) {
            take[i] = ref_in_range(w[i], q) && cnt < 1;
            if (take[i]) ++cnt;
        }
    }
    YK_ASSERT(res.size() == cnt);
    unsigned j = 0;
    for (unsigned i = 0; i < W; ++i) {
        if (!take[i]) continue;
        if (j < res.size()) {
            YK_ASSERT(same_key(std::get<0>(res[j]), w[i]));                                          // the key, in order
            YK_ASSERT(std::get<1>(res[j]) == static_cast<char*>(value::get_body(w[i].val)));      // its current value
            YK_ASSERT(std::get<2>(res[j]) == 1);                                                    // and length
        }
        ++j;
    }
    if (cnt == W && W > 0) YK_REACH();
    if (cnt > 0 && cnt < W) YK_REACH();
    if (cnt == 0) YK_REACH();
    return true;
}
// C05 for scan: the collected set is never empty for an existing storage, every pair is (stable version at read time,
// node) of a border of the tree
inline void nv_sane(const std::vector<nv_t>& nv) {
    YK_ASSERT(!nv.empty());
}
inline bool nv_stale(const std::vector<nv_t>& nv) {
    bool stale = false;
    for (unsigned i = 0; i < 8; ++i)
        if (i < nv.size() && nv[i].second->get_body() != nv[i].first) stale = true; // quiescent: body == stable version
    return stale;
}

// ------------------------------------------------------------------------------------------------ T1
template<unsigned N, unsigned MAP, unsigned LE = 3, unsigned RE = 3, unsigned RTL = 2, bool LONGK = false>
inline void t1_scan() {
    bstate<N> st;
    build_border<N>(st, true, MAP);
    tree_instance ti;
    ti.store_root_ptr(st.node);
    went w[N];
    unsigned nw = 0;
    walk_border<N>(st, w, nw, nullptr, 0);
    std::conditional_t<LONGK, request_long, request> q;
    mk_request(q, N + 1, LE, RE, RTL);
    std::vector<tuple_t> res;
    std::vector<nv_t> nv;
    status rc;
    if (run_scan<N>(&ti, w, q, res, nv, rc)) {
        nv_sane(nv);
        node_version64_body now = st.node->get_stable_version();
        for (unsigned i = 0; i < N + 2; ++i)
            if (i < nv.size()) {
                YK_ASSERT(nv[i].second == st.node->get_version_ptr());
                YK_ASSERT(nv[i].first == now);
            }
    }
    YK_ASSERT(ri_border(st.node, true, nullptr)); // a scan changes nothing
}

// C05: scan, then the real insert of an absent key of the covered interval => some collected pair is stale
template<unsigned N, unsigned MAP>
inline void t1_scan_then_put() {
    bstate<N> st;
    build_border<N>(st, true, MAP);
    tree_instance ti;
    ti.store_root_ptr(st.node);
    session s;
    open_session(s);
    went w[N];
    unsigned nw = 0;
    walk_border<N>(st, w, nw, nullptr, 0);
    request q;
    mk_request(q, N + 1);
    std::vector<tuple_t> res;
    std::vector<nv_t> nv;
    status rc;
    if (!run_scan<N>(&ti, w, q, res, nv, rc)) return;
    // new key inside what the read covered
    sym_key k;
    make_key<8>(k);
    went nk{};
    for (unsigned i = 0; i < 8; ++i) nk.b[i] = k.b[i];
    nk.len = (unsigned) k.len;
    for (unsigned i = 0; i < N; ++i) yk_assume(cmp_bytes(nk.b, nk.len, w[i].b, w[i].len) != 0); // absent
    yk_assume(ref_in_range(nk, q));
    if (q.max_size != 0 && res.size() >= q.max_size) {
        // size-limited read: covered = from its start to the last entry it produced
        const std::string& last = std::get<0>(res[res.size() - 1]);
        unsigned char lb[FKB];
        for (unsigned i = 0; i < FKB; ++i) lb[i] = i < last.size() ? (unsigned char) last[i] : 0;
        int c = cmp_bytes(nk.b, nk.len, lb, (unsigned) last.size());
        yk_assume(q.rtl ? c > 0 : c < 0);
    }
    char nvb = 7;
    status prc = put<char>(s.tok(), &ti, sv(k), &nvb, true, 1, nullptr, static_cast<value_align_type>(1), nullptr);
    YK_ASSERT(prc == status::OK);
    YK_ASSERT(nv_stale(nv));
    YK_REACH();
}

// ------------------------------------------------------------------------------------------------ T2 (two layers)
// root border with A entries, entry L is a link to a layer-1 root border with M entries (full keys = 8 bytes + 0..8)
template<unsigned A, unsigned L, unsigned M>
struct t2state {
    bstate<A> top;
    bstate<M> sub;
    tree_instance ti;
    went w[A - 1 + M];
};
template<unsigned A, unsigned L, unsigned M>
inline void build_t2(t2state<A, L, M>& t) {
    build_border<A>(t.top, true, 0, (int) L);
    build_border<M>(t.sub, true, 0);
    attach_layer(t.top, L, t.sub.node);
    t.ti.store_root_ptr(t.top.node);
    unsigned char pre[8];
    slice_bytes(t.top.e[L].slice, 8, pre);
    unsigned nw = 0;
    for (unsigned i = 0; i < A; ++i) {
        if (i == L) {
            for (unsigned j = 0; j < M; ++j) walk_entry(t.sub.e[j], t.sub.node, t.w[nw++], pre, 8);
        } else {
            walk_entry(t.top.e[i], t.top.node, t.w[nw++], nullptr, 0);
        }
    }
}
template<unsigned A, unsigned L, unsigned M, unsigned LE = 3, unsigned RE = 3, unsigned RTL = 2>
inline void t2_scan() {
    t2state<A, L, M> t;
    build_t2(t);
    request q;
    mk_request(q, A + M, LE, RE, RTL);
    std::vector<tuple_t> res;
    std::vector<nv_t> nv;
    status rc;
    if (run_scan<A - 1 + M>(&t.ti, t.w, q, res, nv, rc)) nv_sane(nv);
    YK_ASSERT(ri_border(t.top.node, true, nullptr) && ri_border(t.sub.node, true, t.top.node));
}
// C05 on two layers: the new key may land in the top border (which contributed only a link to the read) or in the
// sub-layer border
template<unsigned A, unsigned L, unsigned M, unsigned LE = 3, unsigned RE = 3, unsigned RTL = 2>
inline void t2_scan_then_put() {
    constexpr unsigned W = A - 1 + M;
    t2state<A, L, M> t;
    build_t2(t);
    session s;
    open_session(s);
    request q;
    mk_request(q, A + M, LE, RE, RTL);
    std::vector<tuple_t> res;
    std::vector<nv_t> nv;
    status rc;
    if (!run_scan<W>(&t.ti, t.w, q, res, nv, rc)) return;
    nv_sane(nv);
    sym_key k;
    make_key<FKB>(k);
    went nk{};
    for (unsigned i = 0; i < FKB; ++i) nk.b[i] = k.b[i];
    nk.len = (unsigned) k.len;
    for (unsigned i = 0; i < W; ++i) yk_assume(cmp_bytes(nk.b, nk.len, t.w[i].b, t.w[i].len) != 0); // absent
    // the insert stays inside the shape family: either a short key (top border) or a key below the existing link
    if (nk.len > 8) {
        unsigned char pre[8];
        slice_bytes(t.top.e[L].slice, 8, pre);
        yk_assume(cmp_bytes(nk.b, 8, pre, 8) == 0);
    }
    yk_assume(ref_in_range(nk, q));
    if (q.max_size != 0 && res.size() >= q.max_size) {
        const std::string& last = std::get<0>(res[res.size() - 1]);
        unsigned char lb[FKB];
        for (unsigned i = 0; i < FKB; ++i) lb[i] = i < last.size() ? (unsigned char) last[i] : 0;
        int c = cmp_bytes(nk.b, nk.len, lb, (unsigned) last.size());
        yk_assume(q.rtl ? c > 0 : c < 0);
    }
    char nvb = 7;
    yk_layers_reset();
    status prc = put<char>(s.tok(), &t.ti, sv(k), &nvb, true, 1, nullptr, static_cast<value_align_type>(1), nullptr);
    YK_ASSERT(prc == status::OK);
    YK_ASSERT(nv_stale(nv));
    if (nk.len > 8) YK_REACH();
    if (nk.len <= 8) YK_REACH();
}

// ------------------------------------------------------------------------------------------------ T3 (interior root)
template<unsigned A, unsigned B, unsigned LE = 3, unsigned RE = 3, unsigned RTL = 2>
inline void t3_scan() {
    t3state<A, B> t;
    build_t3(t);
    tree_instance ti;
    ti.store_root_ptr(t.root);
    went w[A + B];
    unsigned nw = 0;
    walk_border<A>(t.a, w, nw, nullptr, 0);
    walk_border<B>(t.b, w, nw, nullptr, 0);
    request q;
    mk_request(q, A + B + 1, LE, RE, RTL);
    std::vector<tuple_t> res;
    std::vector<nv_t> nv;
    status rc;
    if (run_scan<A + B>(&ti, w, q, res, nv, rc)) nv_sane(nv);
    YK_ASSERT(ri_interior_of_borders(t.root, true, nullptr, 2));
}
template<unsigned A, unsigned B, unsigned LE = 3, unsigned RE = 3, unsigned RTL = 2>
inline void t3_scan_then_put() {
    constexpr unsigned W = A + B;
    t3state<A, B> t;
    build_t3(t);
    tree_instance ti;
    ti.store_root_ptr(t.root);
    session s;
    open_session(s);
    went w[W];
    unsigned nw = 0;
    walk_border<A>(t.a, w, nw, nullptr, 0);
    walk_border<B>(t.b, w, nw, nullptr, 0);
    request q;
    mk_request(q, W + 1, LE, RE, RTL);
    std::vector<tuple_t> res;
    std::vector<nv_t> nv;
    status rc;
    if (!run_scan<W>(&ti, w, q, res, nv, rc)) return;
    nv_sane(nv);
    sym_key k;
    make_key<8>(k);
    went nk{};
    for (unsigned i = 0; i < 8; ++i) nk.b[i] = k.b[i];
    nk.len = (unsigned) k.len;
    for (unsigned i = 0; i < W; ++i) yk_assume(cmp_bytes(nk.b, nk.len, w[i].b, w[i].len) != 0);
    yk_assume(ref_in_range(nk, q));
    if (q.max_size != 0 && res.size() >= q.max_size) {
        const std::string& last = std::get<0>(res[res.size() - 1]);
        unsigned char lb[FKB];
        for (unsigned i = 0; i < FKB; ++i) lb[i] = i < last.size() ? (unsigned char) last[i] : 0;
        int c = cmp_bytes(nk.b, nk.len, lb, (unsigned) last.size());
        yk_assume(q.rtl ? c > 0 : c < 0);
    }
    char nvb = 7;
    status prc = put<char>(s.tok(), &ti, sv(k), &nvb, true, 1, nullptr, static_cast<value_align_type>(1), nullptr);
    YK_ASSERT(prc == status::OK);
    YK_ASSERT(nv_stale(nv));
    YK_REACH();
}

// ------------------------------------------------------------------------------------------------ T0 / T0d
inline void t0_scan() {
    tree_instance ti;
    request q;
    mk_request(q, 2);
    std::vector<tuple_t> res;
    std::vector<nv_t> nv;
    res.reserve(1);
    nv.reserve(2);
    status rc = scan<char>(&ti, sv(q.l), q.le, sv(q.r), q.re, res, &nv, q.max_size, q.rtl);
    if (ref_bad_usage(q)) {
        YK_ASSERT(rc == status::ERR_BAD_USAGE);
        YK_REACH();
    } else {
        YK_ASSERT(rc == status::OK_ROOT_IS_NULL);
        YK_ASSERT(res.empty());
        YK_REACH();
    }
}
inline void t0d_scan() {
    bstate<0> st;
    build_border<0>(st, true, 0);
    tree_instance ti;
    ti.store_root_ptr(st.node);
    request q;
    mk_request(q, 2);
    std::vector<tuple_t> res;
    std::vector<nv_t> nv;
    status rc;
    went w[1];
    if (run_scan<0>(&ti, w, q, res, nv, rc)) {
        nv_sane(nv); // the empty result of an existing storage is still protected against phantoms
        YK_ASSERT(nv[0].second == st.node->get_version_ptr());
    }
}
} // namespace

#define YK_ENTRY(name, call) YK_HARNESS name() { call; }
YK_ENTRY(H_scan_t1_n1, (t1_scan<1, 0>()))
YK_ENTRY(H_scan_t1_n1_long, (t1_scan<1, 0, 3, 3, 0, true>()))
YK_ENTRY(H_scan_t1_n2, (t1_scan<2, 1>()))
YK_ENTRY(H_scan_t1_n3, (t1_scan<3, 0>()))
YK_ENTRY(H_scan_t0, (t0_scan()))
YK_ENTRY(H_scan_t0d, (t0d_scan()))
YK_ENTRY(H_c05_scan_put_t1_n1, (t1_scan_then_put<1, 0>()))
YK_ENTRY(H_c05_scan_put_t1_n2, (t1_scan_then_put<2, 0>()))
YK_ENTRY(H_scan_t1_n1_ie, (t1_scan<1, 0, 1, 0>()))
YK_ENTRY(H_scan_t1_n1_ff, (t1_scan<1, 0, 2, 2>()))
YK_ENTRY(H_scan_t1_n2_ie, (t1_scan<2, 0, 1, 0>()))
YK_ENTRY(H_scan_t1_n2_ie_f, (t1_scan<2, 0, 1, 0, 0>()))
YK_ENTRY(H_scan_t1_n2_if_r, (t1_scan<2, 0, 1, 2, 1>()))
YK_ENTRY(H_scan_t2_a1m1, (t2_scan<1, 0, 1>()))
YK_ENTRY(H_scan_t2_a2l0m1, (t2_scan<2, 0, 1>()))
YK_ENTRY(H_scan_t2_a2l1m2, (t2_scan<2, 1, 2>()))
YK_ENTRY(H_c05_scan_put_t2_a1m1, (t2_scan_then_put<1, 0, 1>()))
YK_ENTRY(H_c05_scan_put_t2_a1m2, (t2_scan_then_put<1, 0, 2>()))
YK_ENTRY(H_c05_scan_put_t2_a2l1m1, (t2_scan_then_put<2, 1, 1>()))
YK_ENTRY(H_scan_t3_11, (t3_scan<1, 1>()))
YK_ENTRY(H_scan_t3_11_linf, (t3_scan<1, 1, 2, 3, 0>()))
YK_ENTRY(H_scan_t3_11_lfin, (t3_scan<1, 1, 1, 3, 0>()))
YK_ENTRY(H_scan_t3_12, (t3_scan<1, 2>()))
YK_ENTRY(H_c05_scan_put_t3_11, (t3_scan_then_put<1, 1>()))
