#pragma once
#include <cstddef>
namespace tbb {
template<class T> class concurrent_queue {
public:
  bool empty() const { return head_ == tail_; }
  void push(const T& e) { buf_[tail_ % 8] = e; ++tail_; }
  bool try_pop(T& r) { if (head_ == tail_) return false; r = buf_[head_ % 8]; ++head_; return true; }
private:
  T buf_[8]{}; std::size_t head_{0}; std::size_t tail_{0};
};
}
