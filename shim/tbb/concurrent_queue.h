// Model of tbb::concurrent_queue for the symbolic runs only (DESIGN 2.3): a fixed-capacity FIFO whose push / try_pop /
// empty are single atomic steps.  Overflow is an assertion failure (never silently dropped).  TBB's own lock-free
// internals are third-party code and not the subject of any property; the native replays use the real TBB.
#pragma once
#include <cstddef>
#ifndef YK_QCAP
#define YK_QCAP 2
#endif
extern "C" void yk_queue_overflow(void);
namespace tbb {
template<class T>
class concurrent_queue {
public:
    bool empty() const { return head_ == tail_; }
    void push(const T& e) {
        if (tail_ - head_ >= YK_QCAP) yk_queue_overflow();
        buf_[tail_ % YK_QCAP] = e;
        ++tail_;
    }
    bool try_pop(T& r) {
        if (head_ == tail_) return false;
        r = buf_[head_ % YK_QCAP];
        ++head_;
        return true;
    }

private:
    T buf_[YK_QCAP]{};
    std::size_t head_{0};
    std::size_t tail_{0};
};
} // namespace tbb
